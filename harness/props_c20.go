package zzverif

import (
	"context"
	"fmt"
	"time"

	bpmn "github.com/olive-io/bpmn/v2"
	"github.com/olive-io/bpmn/schema"
	"github.com/olive-io/bpmn/v2/pkg/id"
	"github.com/olive-io/bpmn/v2/pkg/tracing"

	"verif/sim/simrt"
)

// ---------- C20: generated identifiers never collide ----------

type genPlan struct {
	Kind    string `json:"kind"` // sno | fallback
	Workers int    `json:"workers"`
	Draws   int    `json:"draws"`   // per worker
	SnapAt  int    `json:"snapAt"`  // snapshot after this many draws of worker 0 (0 = never); the restored generator then draws too
	Restore int    `json:"restoreDraws"`
	// a client takes snapshots while the workers are drawing (their content is not used); when all workers have
	// finished, a snapshot is taken at rest, a generator restored from it draws Restore ids
	RestSnap int `json:"restSnap,omitempty"` // number of snapshot calls racing with the draws (0 = off)
}

// IdCase: (b) generator level. Several generators alive at once, several goroutines drawing from each,
// snapshot/restore (the only "crash and restart with durable state" in this code base), fallback
// generators created at the same instant of a frozen clock.
type IdCase struct {
	Gens   []genPlan `json:"gens"`
	Engine *ProcCase `json:"engine,omitempty"` // (a) an engine run with the real default generator
	Seq    int       `json:"seq,omitempty"`    // (c) this many instances one after the other in one engine, each with a context of its own that is cancelled before the next is created
	GapMs  int       `json:"gapMs,omitempty"`  // (c) simulated time between a cancellation and the next creation (0: the same instant)
	defs   *schema.Definitions
	env    *Env
	ids    [][]string // per drawing goroutine (written by that goroutine only)
	owner  []string
}

func (c *IdCase) Env() *Env { return c.env }
func (c *IdCase) Prepare() error {
	c.env = &Env{}
	if c.Seq > 0 {
		d := &Definitions{}
		g := &Graph{ID: "P1", Executable: true}
		d.Procs = []*Graph{g}
		g.addNode(&Node{ID: "Start", Kind: "start"})
		g.addNode(&Node{ID: "F", Kind: "and"})
		g.connect(d, "Start", "F", nil, -1)
		for i := 1; i <= 3; i++ {
			t, e := fmt.Sprintf("T%d", i), fmt.Sprintf("E%d", i)
			g.addNode(&Node{ID: t, Kind: "task"})
			g.addNode(&Node{ID: e, Kind: "end"})
			g.connect(d, "F", t, nil, -1)
			g.connect(d, t, e, nil, -1)
		}
		defs, err := parseDefs(d.XML())
		if err != nil {
			return err
		}
		c.defs = defs
	}
	if c.Engine != nil {
		if err := c.Engine.Prepare(); err != nil {
			return err
		}
		c.env = c.Engine.env
	}
	return nil
}

//go:norace
func (c *IdCase) slot(owner string) int {
	c.ids = append(c.ids, nil)
	c.owner = append(c.owner, owner)
	return len(c.ids) - 1
}

//go:norace
func (c *IdCase) put(slot int, s string) { c.ids[slot] = append(c.ids[slot], s) }

func (c *IdCase) Main() {
	if c.Engine != nil {
		c.Engine.Main()
		return
	}
	L := &c.env.L
	ctx, cancel := context.WithCancel(context.Background())
	defer cancel()
	if c.Seq > 0 {
		c.mainSeq(ctx)
		return
	}
	tracer := tracing.NewTracer(ctx)
	done := make(chan struct{}, 256)
	n := 0
	var gens []id.IGenerator
	for gi, gp := range c.Gens {
		var g id.IGenerator
		var err error
		if gp.Kind == "sno" {
			g, err = id.GetSno().NewIdGenerator(ctx, tracer)
			if err != nil {
				L.Add("fatal", err.Error(), "", 0)
				return
			}
		} else {
			g = id.NewFallbackGenerator()
		}
		gens = append(gens, g)
		if gp.RestSnap > 0 {
			n++
			gp, g := gp, g
			go func() {
				defer func() { done <- struct{}{} }()
				for k := 0; k < gp.RestSnap; k++ {
					c.env.fault("snapshot-while-others-draw")
					if _, err := g.Snapshot(); err != nil {
						L.Add("fatal", "snapshot: "+err.Error(), "", 0)
						return
					}
					simrt.Yield("between-snapshots")
				}
			}()
		}
		for w := 0; w < gp.Workers; w++ {
			slot := c.slot(fmt.Sprintf("gen%d(%s)/worker%d", gi, gp.Kind, w))
			n++
			gi, gp, w := gi, gp, w
			go func() {
				defer func() { done <- struct{}{} }()
				for k := 1; k <= gp.Draws; k++ {
					e := simrt.Pre("draw")
					v := g.New()
					simrt.Post(e, "draw")
					c.put(slot, v.String())
					if w == 0 && gp.SnapAt == k && gp.Kind == "sno" {
						// "crash": only the snapshot survives; a restored generator continues
						snap, err := g.Snapshot()
						if err != nil {
							L.Add("fatal", "snapshot: "+err.Error(), "", 0)
							return
						}
						c.env.fault("snapshot-restore")
						rg, err := id.GetSno().RestoreIdGenerator(ctx, snap, tracer)
						if err != nil {
							L.Add("fatal", "restore: "+err.Error(), "", 0)
							return
						}
						rslot := c.slot(fmt.Sprintf("gen%d restored after %d draws", gi, k))
						for j := 0; j < gp.Restore; j++ {
							e := simrt.Pre("draw-restored")
							v := rg.New()
							simrt.Post(e, "draw-restored")
							c.put(rslot, v.String())
						}
						return // the original generator is gone with the crash
					}
				}
			}()
		}
	}
	for i := 0; i < n; i++ {
		select {
		case <-done:
		case <-time.After(watchdog):
			L.Add("stuck", "drawing goroutines", "", n-i)
			i = n
		}
	}
	// everything is at rest: what a snapshot holds now covers every id issued so far
	for gi, gp := range c.Gens {
		if gp.RestSnap == 0 || gi >= len(gens) {
			continue
		}
		snap, err := gens[gi].Snapshot()
		if err != nil {
			L.Add("fatal", "snapshot: "+err.Error(), "", 0)
			continue
		}
		c.env.fault("snapshot-restore")
		rg, err := id.GetSno().RestoreIdGenerator(ctx, snap, tracer)
		if err != nil {
			L.Add("fatal", "restore: "+err.Error(), "", 0)
			continue
		}
		rslot := c.slot(fmt.Sprintf("gen%d restored from a snapshot taken at rest (after %d snapshot calls that raced the draws)", gi, gp.RestSnap))
		for j := 0; j < gp.Restore; j++ {
			c.put(rslot, rg.New().String())
		}
	}
	L.Add("end", "", "", 0)
}

// mainSeq: instances that follow each other closely in one engine, each with the engine's own default generator and
// a context of its own, cancelled before the next instance is created. Whatever a generator leaves behind when its
// context ends (a partition, a sequence position) must not make the next one repeat its ids.
func (c *IdCase) mainSeq(ctx context.Context) {
	L := &c.env.L
	engine := bpmn.NewEngine(bpmn.WithEngineContext(ctx))
	for r := 0; r < c.Seq; r++ {
		pctx, pcancel := context.WithCancel(ctx)
		proc, err := engine.NewProcess(c.defs, bpmn.WithContext(pctx))
		if err != nil {
			L.Add("fatal", "NewProcess: "+err.Error(), "", 0)
			pcancel()
			return
		}
		slot := c.slot(fmt.Sprintf("instance #%d of the engine", r+1))
		c.put(slot, proc.Id().String())
		traces := proc.Tracer().SubscribeChannel(make(chan tracing.ITrace, 64))
		if err := proc.StartAll(pctx); err != nil {
			L.Add("fatal", "StartAll: "+err.Error(), "", 0)
		}
		tasks := 0
	read:
		for tasks < 3 {
			select {
			case tr, ok := <-traces:
				if !ok {
					break read
				}
				switch t := tracing.Unwrap(tr).(type) {
				case bpmn.NewFlowTrace:
					c.put(slot, t.FlowId.String())
				case bpmn.TaskTrace:
					tasks++
				}
			case <-time.After(watchdog):
				L.Add("stuck", "instance did not reach its tasks", "", r)
				break read
			}
		}
		c.env.fault("instance-context-cancelled-before-the-next-is-created")
		pcancel()
		if c.GapMs > 0 {
			time.Sleep(time.Duration(c.GapMs) * time.Millisecond)
		} else {
			for k := 0; k < 8; k++ {
				simrt.Yield("between-instances")
			}
		}
		go func() {
			for range traces {
			}
		}()
	}
	<-time.After(time.Second)
	L.Add("end", "", "", 0)
}

func genC20(d *Draw) Case {
	c := &IdCase{}
	if d.N(6) == 5 {
		c.Seq = 2 + d.N(4)
		if d.Bool() {
			c.GapMs = 1 + d.N(6)
		}
		return c
	}
	if d.N(4) == 3 {
		// (a) engine level: a forking process with the engine's real default generator
		opts := ProgOpts{Kinds: []string{"seq", "and", "xor", "loop", "sub"}, MaxDepth: 1 + d.N(2), MaxTasks: 3 + d.N(5), Throws: true}
		prog := GenProgram(d, opts)
		e := &ProcCase{Prog: prog, Buf: d.N(17), Hold: d.N(3), RealIDs: true}
		e.Picks = drawPicks(d, 32)
		c.Engine = e
		return c
	}
	ng := 1 + d.N(8)
	if d.N(3) != 0 {
		ng = 1 + d.N(3)
	}
	for i := 0; i < ng; i++ {
		gp := genPlan{Kind: "sno", Workers: 1 + d.N(4), Draws: 1 + d.N(60)}
		if d.N(3) == 2 {
			gp.Kind = "fallback"
		}
		if d.N(8) == 7 {
			gp.Workers = 1 + d.N(16)
		}
		if gp.Kind == "sno" && d.N(3) == 2 {
			gp.SnapAt = 1 + d.N(gp.Draws)
			gp.Restore = 1 + d.N(60)
			gp.Workers = 1 // "the generator's earlier output" must be well defined: nobody keeps drawing from the original
		} else if gp.Kind == "sno" && d.N(4) == 3 {
			gp.RestSnap = 1 + d.N(4)
			gp.Restore = 1 + d.N(60)
		}
		c.Gens = append(c.Gens, gp)
	}
	if d.N(16) == 15 {
		// several generators created one after the other, one of them drawing thousands of ids inside one frozen
		// time unit while the others draw a few: whatever the generators share (a partition, a sequence space
		// cut into slices) must not make two of them issue the same id
		c.Gens = nil
		heavy := d.N(3)
		for i, n := 0, 2+d.N(3); i < n; i++ {
			gp := genPlan{Kind: "sno", Workers: 1, Draws: 1 + d.N(60)}
			if i == heavy || i == n-1 && heavy >= n {
				gp.Draws = 4000 + 500*d.N(20)
			}
			c.Gens = append(c.Gens, gp)
		}
	}
	if d.N(40) == 39 {
		// enough draws from one generator inside one frozen time unit to overflow its sequence
		c.Gens = []genPlan{{Kind: "sno", Workers: 1 + d.N(3), Draws: 70000}}
	}
	return c
}

func (c *IdCase) heavyAmongSeveral() bool {
	if len(c.Gens) < 2 {
		return false
	}
	for _, g := range c.Gens {
		if g.Draws >= 4000 {
			return true
		}
	}
	return false
}

func checkC20(cc Case, r *simrt.Result) *Outcome {
	c := cc.(*IdCase)
	o := &Outcome{}
	var vl vlist
	genericRunViolations("C20", r, &vl)
	for _, p := range r.Panics {
		vl.add("C20/panic", "%s", p)
	}
	seen := map[string]string{}
	total := 0
	if c.Engine != nil {
		for _, ev := range c.env.L.E {
			var idv, what string
			switch ev.Kind {
			case "t:newflow":
				idv, what = ev.A, "flow id (NewFlowTrace)"
			case "t:instantiation":
				idv, what = ev.A, "instance id (InstantiationTrace)"
			}
			if idv == "" {
				continue
			}
			total++
			if prev, dup := seen[idv]; dup {
				vl.add("C20/collision", "identifier %s observed twice in one run: as %s and as %s", idv, prev, what)
			}
			seen[idv] = what
		}
		o.Viol = vl.v
		o.Nontrivial = total > 2
		probe(o, "engine-level", true)
		o.Sample = map[string]any{"engine_run": c.Engine.Prog.Desc, "ids_observed": total}
		return o
	}
	for _, ev := range c.env.L.E {
		if ev.Kind == "stuck" || ev.Kind == "fatal" {
			vl.add("C20/harness", "%s %s", ev.Kind, ev.A)
		}
	}
	for slot, list := range c.ids {
		for _, s := range list {
			total++
			if prev, dup := seen[s]; dup {
				vl.add("C20/collision", "identifier %s issued twice: by %s and by %s", s, prev, c.owner[slot])
			}
			seen[s] = c.owner[slot]
		}
	}
	o.Viol = vl.v
	workers := 0
	kinds := map[string]int{}
	for _, g := range c.Gens {
		workers += g.Workers
		kinds[g.Kind]++
	}
	o.Nontrivial = workers > 1 || len(c.Gens) > 1 || c.Seq > 1
	probe(o, "several-generators", len(c.Gens) > 1)
	probe(o, "thousands-of-draws-in-one-time-unit-next-to-other-generators", c.heavyAmongSeveral())
	probe(o, "instances-following-each-other-in-one-engine", c.Seq > 0)
	probe(o, "two-fallback-generators-same-instant", kinds["fallback"] > 1)
	probe(o, "snapshot-restore", c.env.FaultCounts()["snapshot-restore"] > 0)
	probe(o, "snapshot-at-rest-after-snapshots-that-raced-the-draws", c.env.FaultCounts()["snapshot-while-others-draw"] > 0)
	probe(o, "sequence-overflow-volume", total > 65535)
	o.Sample = map[string]any{"generators": c.Gens, "ids_drawn": total}
	return o
}

func init() {
	Props["C20"] = &Scenario{Gen: genC20, Check: checkC20, MaxSteps: 4000000, Once: manyFallbackGenerators} // (the step cap is a safety net: the largest cases take about 300 000 steps)
}

// manyFallbackGenerators rides along once per check, without schedule: a program that creates a great many
// fallback generators (every instance created after the partitions of the default generator are used up gets
// one) - two million, four in the thorough tier - and draws the first identifier from each. All of them have
// to be distinct. Plain generated input plus comparison, not simulation.
func manyFallbackGenerators(tier string) *Outcome {
	o := &Outcome{}
	n := 2_000_000
	if tier == "thorough" {
		n = 4_000_000
	}
	seen := make(map[string]int32, n)
	var vl vlist
	for i := 0; i < n && len(vl.v) == 0; i++ {
		g := id.NewFallbackGenerator()
		for k := 0; k < 1; k++ {
			s := g.New().String()
			if prev, dup := seen[s]; dup {
				vl.add("C20/collision", "identifier %s issued twice: by fallback generator #%d and by fallback generator #%d of one program run (%d generators created)", s, prev+1, i+1, n)
				break
			}
			seen[s] = int32(i)
		}
	}
	o.Viol = vl.v
	probe(o, "millions-of-fallback-generators-in-one-program", true)
	o.Sample = map[string]any{"fallback_generators": n, "ids_compared": len(seen)}
	return o
}
