package zzverif

import (
	"fmt"
	"strings"

	"verif/sim/simrt"
)

// ---------- C08: task requests: one effective answer, declared results stored, error modes kept ----------

// genC08Parallel: several tasks in parallel branches declare results and are answered at almost the
// same time (also by duplicate Do calls); every declared result must be stored and visible afterwards.
func genC08Parallel(d *Draw) Case {
	defs := &Definitions{}
	g := &Graph{ID: "P1", Executable: true}
	defs.Procs = []*Graph{g}
	k := 2 + d.N(3)
	g.addNode(&Node{ID: "Start", Kind: "start"})
	g.addNode(&Node{ID: "F", Kind: "and"})
	g.connect(defs, "Start", "F", nil, -1)
	g.addNode(&Node{ID: "J", Kind: "and"})
	scripts := map[string][]AnswerSpec{}
	var props []string
	for i := 1; i <= k; i++ {
		id := fmt.Sprintf("P%d", i)
		g.addNode(&Node{ID: id, Kind: "task", Results: []string{"r_" + id, "v_" + id}})
		g.connect(defs, "F", id, nil, -1)
		g.connect(defs, id, "J", nil, -1)
		sp := AnswerSpec{Results: map[string]any{"v_" + id: fmt.Sprintf("val%d", 10+i)}}
		if d.N(3) == 2 {
			sp.Calls = 2
			sp.Conc = d.Bool()
		}
		scripts[id] = []AnswerSpec{sp}
		props = append(props, "v_"+id)
	}
	g.addNode(&Node{ID: "TZ", Kind: "task", Results: []string{"r_TZ"}, Props: props})
	g.connect(defs, "J", "TZ", nil, -1)
	g.addNode(&Node{ID: "End", Kind: "end"})
	g.connect(defs, "TZ", "End", nil, -1)
	g.index()
	prog := &Program{Defs: defs, Vars: map[string]any{}, Desc: fmt.Sprintf("%d parallel result-writing tasks -> join -> TZ", k)}
	c := &ProcCase{Prog: prog, Buf: d.N(17), Hold: 1 + d.N(2), LogProps: true, Scripts: scripts}
	c.Picks = drawPicks(d, 24)
	c.Meta = map[string]int{"parallel": k}
	if d.N(3) == 2 {
		// a client that reads the instance's variables on every trace while the answers are being stored
		c.Stress = &Stress{Readers: 1 + d.N(2)}
	}
	return c
}

// genC08Loop: a task is requested several times in one instance (a loop), and between two of its requests a
// declared result is stored under the name one of its properties reads - by a task in front of it, or by its own
// previous answer. Every request has to see what is stored at that moment.
func genC08Loop(d *Draw) Case {
	defs := &Definitions{}
	g := &Graph{ID: "P1", Executable: true}
	defs.Procs = []*Graph{g}
	n := 2 + d.N(3)
	self := d.Bool() // the reading task's own answer stores the value its next request reads
	g.addNode(&Node{ID: "Start", Kind: "start"})
	g.addNode(&Node{ID: "LM", Kind: "xor"})
	g.connect(defs, "Start", "LM", nil, -1)
	scripts := map[string][]AnswerSpec{}
	cur := "LM"
	if !self {
		g.addNode(&Node{ID: "TW", Kind: "task", Results: []string{"r_TW", "w"}})
		g.connect(defs, cur, "TW", nil, -1)
		cur = "TW"
		for k := 1; k <= n; k++ {
			scripts["TW"] = append(scripts["TW"], AnswerSpec{Results: map[string]any{"w": fmt.Sprintf("w#%d", k)}})
		}
	}
	tr := g.addNode(&Node{ID: "TR", Kind: "task", Results: []string{"r_TR", "i_TR"}, Counter: "i_TR", Props: []string{"w"}})
	if self {
		tr.Results = append(tr.Results, "w")
		for k := 1; k <= n; k++ {
			scripts["TR"] = append(scripts["TR"], AnswerSpec{Results: map[string]any{"w": fmt.Sprintf("w#%d", k)}})
		}
	}
	g.connect(defs, cur, "TR", nil, -1)
	g.addNode(&Node{ID: "LS", Kind: "xor"})
	g.connect(defs, "TR", "LS", nil, -1)
	g.connect(defs, "LS", "LM", &Cond{LtVar: "i_TR", Lt: n}, -1)
	g.addNode(&Node{ID: "End", Kind: "end"})
	df := g.connect(defs, "LS", "End", nil, -1)
	g.Node("LS").Default = df.ID
	g.index()
	prog := &Program{Defs: defs, Vars: map[string]any{"w": "w#0"}, Desc: fmt.Sprintf("loop*%d( %s TR(reads property w) ), w written by %s", n, map[bool]string{true: "", false: "TW"}[self], map[bool]string{true: "TR's own answer", false: "TW"}[self])}
	c := &ProcCase{Prog: prog, Buf: d.N(17), Hold: d.N(3), LogProps: true, Scripts: scripts}
	c.Picks = drawPicks(d, 24)
	c.Meta = map[string]int{"loop": n, "self": b2i(self)}
	return c
}

func genC08(d *Draw) Case {
	switch d.N(6) {
	case 3:
		return genC08Parallel(d)
	case 4:
		return genC08Loop(d)
	}
	defs := &Definitions{}
	g := &Graph{ID: "P1", Executable: true}
	defs.Procs = []*Graph{g}
	g.addNode(&Node{ID: "Start", Kind: "start"})
	t1 := g.addNode(&Node{ID: "T1", Kind: "task", TaskKind: taskTags[d.N(len(taskTags))], Results: []string{"r_T1", "ok_T1"}, DataOut: []string{"do_T1"}})
	bare := d.N(3)
	if bare > 0 {
		// a task that declares no results at all (no extension elements, or a task definition only): it is
		// answered with results like every other task and nothing of that may be stored
		t0 := g.addNode(&Node{ID: "T0", Kind: "task", TaskKind: taskTags[d.N(len(taskTags))]})
		if bare == 2 {
			t0.Retries = 1
		}
		g.connect(defs, "Start", "T0", nil, -1)
		g.connect(defs, "T0", "T1", nil, -1)
	} else {
		g.connect(defs, "Start", "T1", nil, -1)
	}
	g.addNode(&Node{ID: "X", Kind: "xor"})
	g.connect(defs, "T1", "X", nil, -1)
	t2 := g.addNode(&Node{ID: "T2", Kind: "task", Results: []string{"r_T2"}, Props: []string{"r_T1", "u_T1", "ok_T1"}})
	t3 := g.addNode(&Node{ID: "T3", Kind: "task", Results: []string{"r_T3"}, Props: []string{"r_T1", "u_T1"}})
	useObj := d.N(3) == 2
	var cond *Cond
	if useObj {
		cond = &Cond{Obj: "do_T1", Want: true}
		g.DataObjects = []string{"do_T1"}
	} else {
		cond = &Cond{Var: "ok_T1", Want: true}
	}
	g.connect(defs, "X", t2.ID, cond, -1)
	df := g.connect(defs, "X", t3.ID, nil, -1)
	g.Node("X").Default = df.ID
	g.addNode(&Node{ID: "E1", Kind: "end"})
	g.addNode(&Node{ID: "E2", Kind: "end"})
	g.connect(defs, "T2", "E1", nil, -1)
	g.connect(defs, "T3", "E2", nil, -1)
	g.index()

	okVal := d.Bool()
	final := AnswerSpec{Results: map[string]any{"ok_T1": okVal}, Objects: map[string]any{"do_T1": okVal, "ux_T1": true}}
	final.Calls = 1 + d.N(3)
	final.Conc = final.Calls > 1 && d.Bool()
	final.MixErr = final.Calls > 1 && d.N(3) == 2
	var script []AnswerSpec
	retries := d.N(4)
	desc := ""
	switch d.N(6) {
	case 0: // plain success
		script = []AnswerSpec{final}
		desc = "ok"
	case 1:
		script = []AnswerSpec{{Mode: "err"}}
		desc = "error without handler"
	case 2:
		script = []AnswerSpec{{Mode: "skip", LateHandler: d.N(3) == 2}}
		desc = "error, skip"
	case 3:
		script = []AnswerSpec{{Mode: "exit", LateHandler: d.N(3) == 2}}
		desc = "error, exit"
	case 4: // retry n, success on attempt j (j <= n+1) or never
		j := 1 + d.N(retries+2)
		for k := 1; k < j && k <= retries+1; k++ {
			script = append(script, AnswerSpec{Mode: "retry", Retries: retries, LateHandler: d.N(4) == 3})
		}
		if j <= retries+1 {
			script = append(script, final)
			desc = fmt.Sprintf("retry(%d), success on attempt %d", retries, j)
		} else {
			desc = fmt.Sprintf("retry(%d), never succeeds", retries)
		}
	case 5: // never answered, the task's own time-out fires
		t1.Timeout = fmt.Sprintf("%ds", 1+d.N(20))
		script = []AnswerSpec{{Mode: "never"}}
		desc = "never answered, task timeout " + t1.Timeout
	}
	if d.N(4) == 3 {
		t1.Retries = 1 + d.N(3) // element-level retries attribute (must not change the semantics of a handler decision)
		desc += fmt.Sprintf(" [definition retries=%d]", t1.Retries)
	}
	prog := &Program{Defs: defs, Vars: map[string]any{}, Desc: fmt.Sprintf("T1(%s; calls=%d conc=%v mixed=%v ok=%v obj=%v) -> X -> T2|T3", desc, final.Calls, final.Conc, final.MixErr, okVal, useObj)}
	c := &ProcCase{Prog: prog, Buf: d.N(17), Hold: d.N(3), LogProps: true}
	c.Scripts = map[string][]AnswerSpec{"T1": script}
	c.Picks = drawPicks(d, 16)
	if d.N(3) == 2 {
		c.Stress = &Stress{Readers: 1 + d.N(2)}
	}
	return c
}

func checkC08(cc Case, r *simrt.Result) *Outcome {
	c := cc.(*ProcCase)
	o := &Outcome{}
	var vl vlist
	genericRunViolations("C08", r, &vl)
	for _, p := range r.Panics {
		vl.add("C08/panic", "%s", p)
	}
	tg := CheckTokenGame("C08", c.Prog, c.env.L.E)
	vl.v = append(vl.v, tg.Viol...)
	// every Do call returns; the effective answer is one that can be linearised first
	type call struct{ inv, ret int64 }
	calls := map[string]*call{}
	var finalVars map[string]any
	var props = map[string]map[string]any{}
	propSeq := map[string][]map[string]any{} // per activity: the properties of its requests, in order
	for _, ev := range c.env.L.E {
		switch ev.Kind {
		case "do-call":
			calls[ev.A] = &call{inv: ev.Step, ret: -1}
		case "do-ret":
			if cl := calls[ev.A]; cl != nil {
				cl.ret = ev.Step
			}
		case "vars":
			finalVars, _ = ev.V.(map[string]any)
		case "props":
			pv, _ := ev.V.(map[string]any)
			props[ev.A] = pv
			propSeq[ev.A] = append(propSeq[ev.A], pv)
		}
	}
	blocked := 0
	for k, cl := range calls {
		if cl.ret < 0 {
			blocked++
			vl.add("C08/do-blocked", "TaskTrace.Do call %s (activity/request/call) had not returned when the system was quiescent", k)
		}
	}
	ncalls := 0
	mixed := false
	for _, sp := range c.Scripts["T1"] {
		if sp.Mode == "" && sp.Calls > 1 {
			ncalls = sp.Calls
			mixed = sp.MixErr
		}
	}
	if v, ok := finalVars["r_T1"].(string); ok && ncalls > 1 && tg.Quiesced {
		// "T1#n.ci": which call took effect
		eff := 0
		if i := strings.LastIndex(v, "."); i > 0 {
			fmt.Sscan(v[i+1:], &eff)
		}
		if eff < 1 || eff > ncalls || (mixed && eff%2 == 0) {
			vl.add("C08/effect-of-no-call", "stored result %q is not the payload of any of the %d Do calls", v, ncalls)
		} else {
			// request number of the successful answer = position in the script
			req := len(c.Scripts["T1"])
			me := calls[fmt.Sprintf("T1/%d/%d", req, eff)]
			for ci := 1; ci <= ncalls; ci++ {
				if ci == eff {
					continue
				}
				other := calls[fmt.Sprintf("T1/%d/%d", req, ci)]
				if me != nil && other != nil && other.ret >= 0 && other.ret < me.inv {
					vl.add("C08/not-first-answer", "the stored result comes from Do call %d (invoked at step %d) although call %d had already returned at step %d: the first answer must decide", eff, me.inv, ci, other.ret)
				}
			}
		}
	}
	// visibility to the next task: declared results appear in its properties, undeclared ones do not
	if tg.Quiesced && len(tg.Viol) == 0 {
		for _, next := range []string{"T2", "T3"} {
			pv, ok := props[next]
			if !ok {
				continue
			}
			want, have := finalVars["r_T1"]
			got := pv["r_T1"]
			if have {
				if canon(got) != canon(want) {
					vl.add("C08/result-not-visible", "%s.GetProperties()[r_T1] = %v, stored variable is %v", next, got, want)
				}
			} else if s, _ := got.(string); got != nil && s != "" {
				vl.add("C08/result-not-visible", "%s sees r_T1=%v although no result was stored", next, got)
			}
			if u, _ := pv["u_T1"].(string); pv["u_T1"] != nil && u != "" {
				vl.add("C08/undeclared-stored", "%s sees the undeclared result u_T1=%v", next, pv["u_T1"])
			}
		}
		if _, ok := finalVars["u_T1"]; ok {
			vl.add("C08/undeclared-stored", "undeclared result u_T1 was stored as a variable")
		}
	}
	if n := c.Meta["loop"]; n > 0 && tg.Quiesced && len(tg.Viol) == 0 {
		for k, pv := range propSeq["TR"] {
			want := fmt.Sprintf("w#%d", k+1)
			if c.Meta["self"] == 1 {
				want = fmt.Sprintf("w#%d", k)
			}
			if canon(pv["w"]) != canon(want) {
				vl.add("C08/result-not-visible", "request %d of TR: GetProperties()[w] = %v, the variable holds %s at that moment (stored by the answer given just before)", k+1, pv["w"], want)
			}
		}
	}
	if k := c.Meta["parallel"]; k > 0 && tg.Quiesced && len(tg.Viol) == 0 {
		if pv, ok := props["TZ"]; ok {
			for i := 1; i <= k; i++ {
				name := fmt.Sprintf("v_P%d", i)
				if canon(pv[name]) != canon(fmt.Sprintf("val%d", 10+i)) {
					vl.add("C08/result-not-visible", "TZ.GetProperties()[%s] = %v, the answer of P%d stored %d", name, pv[name], i, 10+i)
				}
			}
		}
	}
	o.Viol = vl.v
	o.Nontrivial = r.Switches > 0
	fc := c.env.FaultCounts()
	probe(o, "parallel-result-writers", c.Meta["parallel"] > 0)
	probe(o, "task-requested-again-after-the-variable-its-property-reads-changed", c.Meta["loop"] > 0)
	probe(o, "client-reads-variables-while-answers-are-stored", c.Stress != nil && c.Stress.Readers > 0)
	probe(o, "duplicate-answer", fc["duplicate-answer"] > 0)
	probe(o, "concurrent-answers", fc["concurrent-answers"] > 0)
	probe(o, "answers-of-different-kinds", fc["answers-of-different-kinds"] > 0)
	probe(o, "answers-of-different-kinds-concurrent", fc["answers-of-different-kinds"] > 0 && fc["concurrent-answers"] > 0)
	probe(o, "late-handler-decision", fc["error-handler-decision-late"] > 0)
	probe(o, "task-timeout-fired", tg.Timeouts > 0)
	probe(o, "retried", tg.Requests["T1"] > 1)
	o.Sample = map[string]any{"program": c.Prog.Desc, "script": c.Scripts["T1"], "requests": tg.Requests, "buf": c.Buf, "hold": c.Hold}
	return o
}

func init() {
	Props["C08"] = &Scenario{Gen: genC08, Check: checkC08}
}
