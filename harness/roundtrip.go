package zzverif

import (
	"encoding/xml"
	"fmt"
	"reflect"
	"sort"
	"strings"

	"github.com/olive-io/bpmn/schema"
)

// ---------- XML round trip (C15) ----------

// rtState, when set, makes parseDefs hand out the re-parsed model (definitions -> XML -> definitions)
// instead of the parsed one and collects what the round trip itself got wrong.
type rtState struct {
	vl     vlist
	ids    []string // ids that must be retrievable (set by the caller; nil = every id="…" of the source text)
	differ bool
	edit   int // > 0: the parsed model is edited in memory before it is serialised (see editModel)
	edited int // number of fields editModel changed
}

var rtMode *rtState

// parseDefs is how every scenario obtains its definitions model.
func parseDefs(text string) (*schema.Definitions, error) {
	a, err := schema.Parse([]byte(text))
	if err != nil {
		return nil, err
	}
	if rtMode == nil {
		return a, nil
	}
	b, _ := roundTrip(text, a, rtMode)
	if b == nil {
		return nil, fmt.Errorf("round trip failed: %v", rtMode.vl.v)
	}
	return b, nil
}

// roundTrip serialises a (parsed from text), re-parses the output and compares. It returns the
// re-parsed model (nil if there is none).
func roundTrip(text string, a *schema.Definitions, st *rtState) (*schema.Definitions, []byte) {
	ref, err := schema.Parse([]byte(text)) // an untouched twin of a
	if err != nil {
		st.vl.add("C15/harness", "second parse of the same text failed: %v", err)
		return nil, nil
	}
	if st.edit > 0 {
		// the model that is serialised need not come from the parser: the same in-memory edit is applied to
		// the model and to its twin (values the parser itself would never have produced are lost silently
		// if the reading side normalises them)
		st.edited = editModel(a, st.edit)
		editModel(ref, st.edit)
	}
	out, err := xml.Marshal(a)
	if err != nil {
		st.vl.add("C15/marshal-error", "xml.Marshal of the parsed model: %v", err)
		return nil, nil
	}
	if d := semDiff(ref, a, 3); len(d) > 0 {
		st.vl.add("C15/serialising-alters-model", "after xml.Marshal the serialised model differs from its untouched twin: %s", strings.Join(d, "; "))
	}
	out2, err := xml.Marshal(a)
	if err == nil && string(out2) != string(out) {
		st.vl.add("C15/serialising-alters-model", "a second xml.Marshal of the same model gives different output")
	}
	b, err := schema.Parse(out)
	if err != nil {
		st.vl.add("C15/reparse-error", "schema.Parse of the serialised model: %v", err)
		return nil, out
	}
	if d := semDiff(ref, b, 4); len(d) > 0 {
		st.differ = true
		st.vl.add("C15/model-differs", "the re-parsed model differs from the original: %s", strings.Join(d, "; "))
	}
	ids := st.ids
	if ids == nil {
		ids = idsOfText(text)
	}
	for _, m := range []struct {
		name string
		d    *schema.Definitions
	}{{"original", ref}, {"re-parsed", b}} {
		for _, id := range ids {
			e, found := m.d.FindBy(schema.ExactId(id))
			if !found {
				st.vl.add("C15/find-by-id", "element %q is not retrievable by its id in the %s model", id, m.name)
				continue
			}
			if ie, ok := e.(interface{ Id() (*schema.Id, bool) }); !ok {
				st.vl.add("C15/find-by-id", "FindBy(ExactId(%q)) returned a %T, which has no id, in the %s model", id, e, m.name)
			} else if got, ok := ie.Id(); !ok || got == nil || *got != id {
				st.vl.add("C15/find-by-id", "FindBy(ExactId(%q)) returned an element with another id in the %s model", id, m.name)
			}
		}
	}
	return b, out
}

// idsOfText lists the values of the id="…" attributes of BPMN-namespace (not DI) elements.
func idsOfText(text string) []string {
	dec := xml.NewDecoder(strings.NewReader(text))
	seen := map[string]bool{}
	var out []string
	for {
		tok, err := dec.Token()
		if err != nil {
			break
		}
		se, ok := tok.(xml.StartElement)
		if !ok || se.Name.Space != "http://www.omg.org/spec/BPMN/20100524/MODEL" || se.Name.Local == "definitions" {
			continue // (the definitions element is the receiver of FindBy)
		}
		for _, at := range se.Attr {
			if at.Name.Local == "id" && at.Name.Space == "" && at.Value != "" && !seen[at.Value] {
				seen[at.Value] = true
				out = append(out, at.Value)
			}
		}
	}
	return out
}

// editValues: what an application may put into a model it builds or edits in memory.
var editValues = []string{" lead", "trail ", "  both  ", "in  side", "tab\there", "é ✓ ü", "<&>\"'", "x", "", "007", " 5", "true "}

// editModel changes free-text fields of the non-executable zoo process "ZZ" (item values and references,
// task definition attributes, script attributes, called-element attributes, data object bodies, element
// names): nothing the engine runs. The walk is deterministic, so a model and its twin get the same edit.
func editModel(defs *schema.Definitions, seed int) int {
	k, n := seed, 0
	next := func() string { k++; return editValues[k%len(editValues)] }
	itemT := reflect.TypeOf(schema.Item{})
	tdT := reflect.TypeOf(schema.TaskDefinition{})
	scT := reflect.TypeOf(schema.ExtensionScript{})
	ceT := reflect.TypeOf(schema.ExtensionCalledElement{})
	bodyT := reflect.TypeOf(schema.ExtensionDataObjectBody{})
	seen := map[uintptr]bool{}
	var walk func(v reflect.Value)
	walk = func(v reflect.Value) {
		switch v.Kind() {
		case reflect.Ptr:
			if v.IsNil() || seen[v.Pointer()] {
				return
			}
			seen[v.Pointer()] = true
			walk(v.Elem())
		case reflect.Interface:
			if !v.IsNil() {
				walk(v.Elem())
			}
		case reflect.Slice:
			for i := 0; i < v.Len(); i++ {
				walk(v.Index(i))
			}
		case reflect.Struct:
			set := func(names ...string) {
				for _, nm := range names {
					if f := v.FieldByName(nm); f.IsValid() && f.CanSet() && f.Kind() == reflect.String {
						f.SetString(next())
						n++
					}
				}
			}
			switch v.Type() {
			case itemT:
				set("Value", "Ref")
				return
			case tdT:
				set("Type", "Target", "Metadata")
				return
			case scT:
				set("Expression", "Result")
				return
			case ceT:
				set("DefinitionId", "ProcessId")
				return
			case bodyT:
				if f := v.FieldByName("Body"); f.CanSet() {
					f.SetString("{\"k\": \"" + strings.TrimSpace(next()) + "\"}")
					n++
				}
				return
			}
			for i := 0; i < v.NumField(); i++ {
				f := v.Field(i)
				if v.Type().Field(i).Name == "NameField" && f.Kind() == reflect.Ptr && f.Type().Elem().Kind() == reflect.String && f.CanSet() {
					nv := reflect.New(f.Type().Elem())
					nv.Elem().SetString(next())
					f.Set(nv)
					n++
					continue
				}
				walk(f)
			}
		}
	}
	procs := defs.Processes()
	for i := range *procs {
		if id, ok := (*procs)[i].Id(); ok && *id == "ZZ" {
			walk(reflect.ValueOf(&(*procs)[i]))
		}
	}
	return n
}

// semDiff compares two models field by field and returns up to max differences (path: what).
// Whitespace around text content is ignored and an absent text payload equals an empty one
// ("whitespace-only text aside"); attribute values and every other string have to agree exactly; nil and
// empty slices are the same; everything else has to agree, including the dynamic type behind every
// interface (the formal or informal kind of an expression).
func semDiff(a, b any, max int) []string {
	w := &differ{max: max, seen: map[[2]uintptr]bool{}}
	w.walk("", reflect.ValueOf(a), reflect.ValueOf(b))
	return w.out
}

type differ struct {
	max  int
	out  []string
	seen map[[2]uintptr]bool
}

var payloadT = reflect.TypeOf((*schema.Payload)(nil))

func (w *differ) add(path, f string, a ...any) {
	if len(w.out) < w.max {
		w.out = append(w.out, strings.TrimPrefix(path, ".")+": "+fmt.Sprintf(f, a...))
	}
}

func isBlankPayload(v reflect.Value) bool {
	return v.IsNil() || strings.TrimSpace(v.Elem().String()) == ""
}

func (w *differ) walk(path string, a, b reflect.Value) {
	if len(w.out) >= w.max {
		return
	}
	if a.IsValid() != b.IsValid() {
		w.add(path, "present on one side only")
		return
	}
	if !a.IsValid() {
		return
	}
	if a.Type() != b.Type() {
		w.add(path, "%v became %v", a.Type(), b.Type())
		return
	}
	if a.Type() == payloadT {
		if isBlankPayload(a) && isBlankPayload(b) {
			return
		}
	}
	switch a.Kind() {
	case reflect.Ptr, reflect.Interface:
		if a.IsNil() != b.IsNil() {
			if a.IsNil() {
				w.add(path, "absent became present")
			} else {
				w.add(path, "present became absent")
			}
			return
		}
		if a.IsNil() {
			return
		}
		if a.Kind() == reflect.Ptr {
			k := [2]uintptr{a.Pointer(), b.Pointer()}
			if w.seen[k] {
				return
			}
			w.seen[k] = true
		}
		w.walk(path, a.Elem(), b.Elem())
	case reflect.Struct:
		for i := 0; i < a.NumField(); i++ {
			w.walk(path+"."+a.Type().Field(i).Name, a.Field(i), b.Field(i))
		}
	case reflect.Slice, reflect.Array:
		if a.Len() != b.Len() {
			w.add(path, "%d element(s) became %d", a.Len(), b.Len())
			return
		}
		for i := 0; i < a.Len(); i++ {
			w.walk(fmt.Sprintf("%s[%d]", path, i), a.Index(i), b.Index(i))
		}
	case reflect.Map:
		if a.Len() != b.Len() {
			w.add(path, "map of %d became %d", a.Len(), b.Len())
			return
		}
		keys := a.MapKeys()
		sort.Slice(keys, func(i, j int) bool { return fmt.Sprint(keys[i]) < fmt.Sprint(keys[j]) })
		for _, k := range keys {
			bv := b.MapIndex(k)
			if !bv.IsValid() {
				w.add(path, "key %v lost", k)
				continue
			}
			w.walk(fmt.Sprintf("%s[%v]", path, k), a.MapIndex(k), bv)
		}
	case reflect.String:
		if a.Type() == payloadT.Elem() {
			if strings.TrimSpace(a.String()) != strings.TrimSpace(b.String()) {
				w.add(path, "%q became %q", a.String(), b.String())
			}
		} else if a.String() != b.String() {
			w.add(path, "%q became %q", a.String(), b.String())
		}
	case reflect.Bool:
		if a.Bool() != b.Bool() {
			w.add(path, "%v became %v", a.Bool(), b.Bool())
		}
	case reflect.Int, reflect.Int8, reflect.Int16, reflect.Int32, reflect.Int64:
		if a.Int() != b.Int() {
			w.add(path, "%d became %d", a.Int(), b.Int())
		}
	case reflect.Uint, reflect.Uint8, reflect.Uint16, reflect.Uint32, reflect.Uint64, reflect.Uintptr:
		if a.Uint() != b.Uint() {
			w.add(path, "%d became %d", a.Uint(), b.Uint())
		}
	case reflect.Float32, reflect.Float64:
		if a.Float() != b.Float() {
			w.add(path, "%v became %v", a.Float(), b.Float())
		}
	case reflect.Func, reflect.Chan, reflect.UnsafePointer:
		// not part of the model
	default:
		w.add(path, "harness: unsupported kind %v", a.Kind())
	}
}

// zooProcess draws a non-executable process that the engine never runs: a collection of element kinds
// and olive extension data with drawn attribute values (zero values, empty strings, entities included),
// present in the document only so that the structural clauses of C15 see them.
func zooProcess(d *Draw) string {
	var b strings.Builder
	pick := func(xs ...string) string { return xs[d.N(len(xs))] }
	tf := func() string { return pick("true", "false") }
	b.WriteString("  <bpmn:process id=\"ZZ\" isExecutable=\"false\"" + pick("", " name=\"zoo &amp; co\"", " isClosed=\"true\"", " processType=\"Private\"") + ">\n")
	if d.Bool() {
		b.WriteString("    <bpmn:documentation id=\"ZZ_doc\">about &lt;this&gt; process</bpmn:documentation>\n")
	}
	b.WriteString("    <bpmn:startEvent id=\"ZZ_start\"><bpmn:outgoing>ZZ_f1</bpmn:outgoing></bpmn:startEvent>\n")
	// call activity
	b.WriteString("    <bpmn:callActivity id=\"ZZ_call\"" + pick("", " name=\"call\"", " calledElement=\"other\"") + ">\n      <bpmn:extensionElements>\n")
	fmt.Fprintf(&b, "        <olive:calledElement definitionId=\"%s\" processId=\"%s\" propagateAllChildVariables=\"%s\"/>\n", pick("", "d1"), pick("", "p1"), tf())
	if d.Bool() {
		fmt.Fprintf(&b, "        <olive:calledDecision decisionId=\"%s\" result=\"%s\"/>\n", pick("", "dec"), pick("", "res"))
	}
	b.WriteString("      </bpmn:extensionElements>\n      <bpmn:incoming>ZZ_f1</bpmn:incoming><bpmn:outgoing>ZZ_f2</bpmn:outgoing>\n    </bpmn:callActivity>\n")
	// service task
	b.WriteString("    <bpmn:serviceTask id=\"ZZ_svc\"" + pick("", " implementation=\"##WebService\"") + ">\n      <bpmn:extensionElements>\n")
	fmt.Fprintf(&b, "        <olive:taskDefinition type=\"%s\" timeout=\"%s\" retries=\"%s\" target=\"%s\" metadata=\"%s\"/>\n",
		pick("", "grpc", "http"), pick("", "PT5S"), pick("0", "3", "-1"), pick("", "host:1"), pick("", "{&quot;a&quot;:1}"))
	types := []string{"string", "integer", "boolean", "float", "object", "array"}
	item := func(tag string, i int) {
		fmt.Fprintf(&b, "          <olive:%s name=\"n%d\" value=\"%s\" type=\"%s\" ref=\"%s\"/>\n", tag, i, pick("", "v", "0", "false", "{&quot;k&quot;:[1,2]}", " spaced "), types[d.N(len(types))], pick("", "$x.y"))
	}
	if n := d.N(4); n > 0 {
		b.WriteString("        <olive:taskHeaders>\n")
		for i := 0; i < n; i++ {
			item("header", i)
		}
		b.WriteString("        </olive:taskHeaders>\n")
	}
	if n := d.N(4); n > 0 {
		b.WriteString("        <olive:properties>\n")
		for i := 0; i < n; i++ {
			item("property", i)
		}
		b.WriteString("        </olive:properties>\n")
	}
	if n := d.N(3); n > 0 {
		b.WriteString("        <olive:results>\n")
		for i := 0; i < n; i++ {
			item("field", i)
		}
		b.WriteString("        </olive:results>\n")
	}
	for i, n := 0, d.N(3); i < n; i++ {
		fmt.Fprintf(&b, "        <olive:dataInput name=\"in%d\" targetRef=\"%s\"/>\n", i, pick("", "ZZ_do"))
	}
	for i, n := 0, d.N(3); i < n; i++ {
		fmt.Fprintf(&b, "        <olive:dataOutput name=\"out%d\" targetRef=\"%s\"/>\n", i, pick("", "ZZ_do"))
	}
	b.WriteString("      </bpmn:extensionElements>\n      <bpmn:incoming>ZZ_f2</bpmn:incoming><bpmn:outgoing>ZZ_f3</bpmn:outgoing>\n    </bpmn:serviceTask>\n")
	// script task
	b.WriteString("    <bpmn:scriptTask id=\"ZZ_script\"" + pick("", " scriptFormat=\"js\"") + ">\n      <bpmn:extensionElements>\n")
	fmt.Fprintf(&b, "        <olive:script expression=\"%s\" result=\"%s\" resultType=\"%s\"/>\n", pick("", "a + 1", "x &lt; 2"), pick("", "r"), pick("", "integer", "string"))
	b.WriteString("      </bpmn:extensionElements>\n      <bpmn:incoming>ZZ_f3</bpmn:incoming><bpmn:outgoing>ZZ_f4</bpmn:outgoing>\n")
	if d.Bool() {
		b.WriteString("      <bpmn:script>return 1 &lt; 2;</bpmn:script>\n")
	}
	b.WriteString("    </bpmn:scriptTask>\n")
	// gateway with default, formal and informal conditions
	b.WriteString("    <bpmn:exclusiveGateway id=\"ZZ_x\" default=\"ZZ_f6\"" + pick("", " gatewayDirection=\"Diverging\"") + "><bpmn:incoming>ZZ_f4</bpmn:incoming><bpmn:outgoing>ZZ_f5</bpmn:outgoing><bpmn:outgoing>ZZ_f6</bpmn:outgoing></bpmn:exclusiveGateway>\n")
	// events
	b.WriteString("    <bpmn:intermediateCatchEvent id=\"ZZ_catch\"" + pick("", " parallelMultiple=\"true\"", " parallelMultiple=\"false\"") + "><bpmn:incoming>ZZ_f5</bpmn:incoming><bpmn:outgoing>ZZ_f7</bpmn:outgoing>\n")
	switch d.N(4) {
	case 0:
		fmt.Fprintf(&b, "      <bpmn:timerEventDefinition id=\"ZZ_td\"><bpmn:%s xsi:type=\"bpmn:tFormalExpression\">%s</bpmn:%s></bpmn:timerEventDefinition>\n", "timeCycle", "R3/PT10S", "timeCycle")
	case 1:
		b.WriteString("      <bpmn:timerEventDefinition id=\"ZZ_td\"><bpmn:timeDate>2030-01-01T00:00:00Z</bpmn:timeDate></bpmn:timerEventDefinition>\n")
	case 2:
		b.WriteString("      <bpmn:signalEventDefinition id=\"ZZ_sd\" signalRef=\"ZZ_sig\"/>\n")
		if d.Bool() {
			b.WriteString("      <bpmn:messageEventDefinition id=\"ZZ_md\" messageRef=\"ZZ_msg\"><bpmn:operationRef>op1</bpmn:operationRef></bpmn:messageEventDefinition>\n")
		} else {
			b.WriteString("      <bpmn:messageEventDefinition id=\"ZZ_md\" messageRef=\"ZZ_msg\"/>\n")
		}
	case 3:
		b.WriteString("      <bpmn:conditionalEventDefinition id=\"ZZ_cd\"><bpmn:condition xsi:type=\"bpmn:tFormalExpression\"" + pick("", " language=\"https://github.com/expr-lang/expr\"") + ">a &gt; 1</bpmn:condition></bpmn:conditionalEventDefinition>\n")
	}
	b.WriteString("    </bpmn:intermediateCatchEvent>\n")
	b.WriteString("    <bpmn:boundaryEvent id=\"ZZ_b\" attachedToRef=\"ZZ_svc\" cancelActivity=\"" + tf() + "\"><bpmn:outgoing>ZZ_f8</bpmn:outgoing><bpmn:signalEventDefinition id=\"ZZ_bsd\" signalRef=\"ZZ_sig\"/></bpmn:boundaryEvent>\n")
	b.WriteString("    <bpmn:intermediateThrowEvent id=\"ZZ_throw\"><bpmn:incoming>ZZ_f8</bpmn:incoming><bpmn:signalEventDefinition id=\"ZZ_tsd\" signalRef=\"ZZ_sig\"/></bpmn:intermediateThrowEvent>\n")
	b.WriteString("    <bpmn:endEvent id=\"ZZ_end\"><bpmn:incoming>ZZ_f6</bpmn:incoming><bpmn:incoming>ZZ_f7</bpmn:incoming></bpmn:endEvent>\n")
	b.WriteString("    <bpmn:dataObject id=\"ZZ_do\" name=\"ZZ_do\"" + pick("", " isCollection=\"true\"", " isCollection=\"false\"") + ">")
	if d.Bool() {
		b.WriteString("<bpmn:extensionElements><olive:dataObjectBody>{&quot;k&quot;: 1}</olive:dataObjectBody></bpmn:extensionElements>")
	}
	b.WriteString("</bpmn:dataObject>\n")
	b.WriteString("    <bpmn:sequenceFlow id=\"ZZ_f1\" sourceRef=\"ZZ_start\" targetRef=\"ZZ_call\"/>\n")
	b.WriteString("    <bpmn:sequenceFlow id=\"ZZ_f2\" sourceRef=\"ZZ_call\" targetRef=\"ZZ_svc\"" + pick("", " name=\"\"", " name=\"next\"") + "/>\n")
	b.WriteString("    <bpmn:sequenceFlow id=\"ZZ_f3\" sourceRef=\"ZZ_svc\" targetRef=\"ZZ_script\"/>\n")
	b.WriteString("    <bpmn:sequenceFlow id=\"ZZ_f4\" sourceRef=\"ZZ_script\" targetRef=\"ZZ_x\"/>\n")
	b.WriteString("    <bpmn:sequenceFlow id=\"ZZ_f5\" sourceRef=\"ZZ_x\" targetRef=\"ZZ_catch\">" + pick("<bpmn:conditionExpression xsi:type=\"bpmn:tFormalExpression\">a &gt; 1</bpmn:conditionExpression>", "<bpmn:conditionExpression>when it rains</bpmn:conditionExpression>", "<bpmn:conditionExpression xsi:type=\"bpmn:tFormalExpression\" language=\"http://www.w3.org/1999/XPath\">//a = 'b'</bpmn:conditionExpression>") + "</bpmn:sequenceFlow>\n")
	b.WriteString("    <bpmn:sequenceFlow id=\"ZZ_f6\" sourceRef=\"ZZ_x\" targetRef=\"ZZ_end\"/>\n")
	b.WriteString("    <bpmn:sequenceFlow id=\"ZZ_f7\" sourceRef=\"ZZ_catch\" targetRef=\"ZZ_end\"/>\n")
	b.WriteString("    <bpmn:sequenceFlow id=\"ZZ_f8\" sourceRef=\"ZZ_b\" targetRef=\"ZZ_throw\"/>\n")
	b.WriteString("  </bpmn:process>\n")
	b.WriteString("  <bpmn:signal id=\"ZZ_sig\" name=\"ZZ_sig\"/>\n  <bpmn:message id=\"ZZ_msg\" name=\"ZZ_msg\"/>\n")
	return b.String()
}
