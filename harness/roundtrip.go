package zzverif

import (
	"encoding/xml"
	"fmt"
	"reflect"
	"sort"
	"strings"

	"github.com/olive-io/bpmn/schema"
)

// ---------- XML round trip (C15) ----------

// rtState, when set, makes parseDefs hand out the re-parsed model (definitions -> XML -> definitions)
// instead of the parsed one and collects what the round trip itself got wrong.
type rtState struct {
	vl     vlist
	ids    []string // ids that must be retrievable (set by the caller; nil = every id="…" of the source text)
	differ bool
}

var rtMode *rtState

// parseDefs is how every scenario obtains its definitions model.
func parseDefs(text string) (*schema.Definitions, error) {
	a, err := schema.Parse([]byte(text))
	if err != nil {
		return nil, err
	}
	if rtMode == nil {
		return a, nil
	}
	b, _ := roundTrip(text, a, rtMode)
	if b == nil {
		return nil, fmt.Errorf("round trip failed: %v", rtMode.vl.v)
	}
	return b, nil
}

// roundTrip serialises a (parsed from text), re-parses the output and compares. It returns the
// re-parsed model (nil if there is none).
func roundTrip(text string, a *schema.Definitions, st *rtState) (*schema.Definitions, []byte) {
	ref, err := schema.Parse([]byte(text)) // an untouched twin of a
	if err != nil {
		st.vl.add("C15/harness", "second parse of the same text failed: %v", err)
		return nil, nil
	}
	out, err := xml.Marshal(a)
	if err != nil {
		st.vl.add("C15/marshal-error", "xml.Marshal of the parsed model: %v", err)
		return nil, nil
	}
	if d := semDiff(ref, a, 3); len(d) > 0 {
		st.vl.add("C15/serialising-alters-model", "after xml.Marshal the serialised model differs from its untouched twin: %s", strings.Join(d, "; "))
	}
	out2, err := xml.Marshal(a)
	if err == nil && string(out2) != string(out) {
		st.vl.add("C15/serialising-alters-model", "a second xml.Marshal of the same model gives different output")
	}
	b, err := schema.Parse(out)
	if err != nil {
		st.vl.add("C15/reparse-error", "schema.Parse of the serialised model: %v", err)
		return nil, out
	}
	if d := semDiff(ref, b, 4); len(d) > 0 {
		st.differ = true
		st.vl.add("C15/model-differs", "the re-parsed model differs from the original: %s", strings.Join(d, "; "))
	}
	ids := st.ids
	if ids == nil {
		ids = idsOfText(text)
	}
	for _, m := range []struct {
		name string
		d    *schema.Definitions
	}{{"original", ref}, {"re-parsed", b}} {
		for _, id := range ids {
			e, found := m.d.FindBy(schema.ExactId(id))
			if !found {
				st.vl.add("C15/find-by-id", "element %q is not retrievable by its id in the %s model", id, m.name)
				continue
			}
			if ie, ok := e.(interface{ Id() (*schema.Id, bool) }); !ok {
				st.vl.add("C15/find-by-id", "FindBy(ExactId(%q)) returned a %T, which has no id, in the %s model", id, e, m.name)
			} else if got, ok := ie.Id(); !ok || got == nil || *got != id {
				st.vl.add("C15/find-by-id", "FindBy(ExactId(%q)) returned an element with another id in the %s model", id, m.name)
			}
		}
	}
	return b, out
}

// idsOfText lists the values of the id="…" attributes of BPMN-namespace (not DI) elements.
func idsOfText(text string) []string {
	dec := xml.NewDecoder(strings.NewReader(text))
	seen := map[string]bool{}
	var out []string
	for {
		tok, err := dec.Token()
		if err != nil {
			break
		}
		se, ok := tok.(xml.StartElement)
		if !ok || se.Name.Space != "http://www.omg.org/spec/BPMN/20100524/MODEL" || se.Name.Local == "definitions" {
			continue // (the definitions element is the receiver of FindBy)
		}
		for _, at := range se.Attr {
			if at.Name.Local == "id" && at.Name.Space == "" && at.Value != "" && !seen[at.Value] {
				seen[at.Value] = true
				out = append(out, at.Value)
			}
		}
	}
	return out
}

// semDiff compares two models field by field and returns up to max differences (path: what).
// Whitespace around text is ignored and an absent text payload equals an empty one ("whitespace-only
// text aside"); nil and empty slices are the same; everything else has to agree, including the
// dynamic type behind every interface (the formal or informal kind of an expression).
func semDiff(a, b any, max int) []string {
	w := &differ{max: max, seen: map[[2]uintptr]bool{}}
	w.walk("", reflect.ValueOf(a), reflect.ValueOf(b))
	return w.out
}

type differ struct {
	max  int
	out  []string
	seen map[[2]uintptr]bool
}

var payloadT = reflect.TypeOf((*schema.Payload)(nil))

func (w *differ) add(path, f string, a ...any) {
	if len(w.out) < w.max {
		w.out = append(w.out, strings.TrimPrefix(path, ".")+": "+fmt.Sprintf(f, a...))
	}
}

func isBlankPayload(v reflect.Value) bool {
	return v.IsNil() || strings.TrimSpace(v.Elem().String()) == ""
}

func (w *differ) walk(path string, a, b reflect.Value) {
	if len(w.out) >= w.max {
		return
	}
	if a.IsValid() != b.IsValid() {
		w.add(path, "present on one side only")
		return
	}
	if !a.IsValid() {
		return
	}
	if a.Type() != b.Type() {
		w.add(path, "%v became %v", a.Type(), b.Type())
		return
	}
	if a.Type() == payloadT {
		if isBlankPayload(a) && isBlankPayload(b) {
			return
		}
	}
	switch a.Kind() {
	case reflect.Ptr, reflect.Interface:
		if a.IsNil() != b.IsNil() {
			if a.IsNil() {
				w.add(path, "absent became present")
			} else {
				w.add(path, "present became absent")
			}
			return
		}
		if a.IsNil() {
			return
		}
		if a.Kind() == reflect.Ptr {
			k := [2]uintptr{a.Pointer(), b.Pointer()}
			if w.seen[k] {
				return
			}
			w.seen[k] = true
		}
		w.walk(path, a.Elem(), b.Elem())
	case reflect.Struct:
		for i := 0; i < a.NumField(); i++ {
			w.walk(path+"."+a.Type().Field(i).Name, a.Field(i), b.Field(i))
		}
	case reflect.Slice, reflect.Array:
		if a.Len() != b.Len() {
			w.add(path, "%d element(s) became %d", a.Len(), b.Len())
			return
		}
		for i := 0; i < a.Len(); i++ {
			w.walk(fmt.Sprintf("%s[%d]", path, i), a.Index(i), b.Index(i))
		}
	case reflect.Map:
		if a.Len() != b.Len() {
			w.add(path, "map of %d became %d", a.Len(), b.Len())
			return
		}
		keys := a.MapKeys()
		sort.Slice(keys, func(i, j int) bool { return fmt.Sprint(keys[i]) < fmt.Sprint(keys[j]) })
		for _, k := range keys {
			bv := b.MapIndex(k)
			if !bv.IsValid() {
				w.add(path, "key %v lost", k)
				continue
			}
			w.walk(fmt.Sprintf("%s[%v]", path, k), a.MapIndex(k), bv)
		}
	case reflect.String:
		if strings.TrimSpace(a.String()) != strings.TrimSpace(b.String()) {
			w.add(path, "%q became %q", a.String(), b.String())
		}
	case reflect.Bool:
		if a.Bool() != b.Bool() {
			w.add(path, "%v became %v", a.Bool(), b.Bool())
		}
	case reflect.Int, reflect.Int8, reflect.Int16, reflect.Int32, reflect.Int64:
		if a.Int() != b.Int() {
			w.add(path, "%d became %d", a.Int(), b.Int())
		}
	case reflect.Uint, reflect.Uint8, reflect.Uint16, reflect.Uint32, reflect.Uint64, reflect.Uintptr:
		if a.Uint() != b.Uint() {
			w.add(path, "%d became %d", a.Uint(), b.Uint())
		}
	case reflect.Float32, reflect.Float64:
		if a.Float() != b.Float() {
			w.add(path, "%v became %v", a.Float(), b.Float())
		}
	case reflect.Func, reflect.Chan, reflect.UnsafePointer:
		// not part of the model
	default:
		w.add(path, "harness: unsupported kind %v", a.Kind())
	}
}
