package zzverif

import (
	"verif/sim/simrt"
)

// Case is one generated scenario instance.
type Case interface {
	Prepare() error
	Main()
	Env() *Env
}

// Outcome of checking one run.
type Outcome struct {
	Viol       []Violation
	Nontrivial bool
	Probes     map[string]int
	Sample     any
	Tags       []string
}

// Scenario is a property's generator and oracle.
type Scenario struct {
	Gen   func(d *Draw) Case
	Check func(c Case, r *simrt.Result) *Outcome
	// MaxSteps overrides the default step cap.
	MaxSteps int
	// Once, if set, is a check without schedule that rides along (run once per check invocation by
	// the first worker), e.g. an exhaustive enumeration of a small sequential space.
	Once func(tier string) *Outcome
}

var Props = map[string]*Scenario{}

func probe(o *Outcome, name string, cond bool) {
	if o.Probes == nil {
		o.Probes = map[string]int{}
	}
	if cond {
		o.Probes[name]++
	}
}

// picks pre-draws the run-time decision list of the driver.
func drawPicks(d *Draw, n int) []int {
	out := make([]int, n)
	for i := range out {
		out[i] = d.N(1 << 16)
	}
	// trailing zeros are the default anyway: trim for readability
	for len(out) > 0 && out[len(out)-1] == 0 {
		out = out[:len(out)-1]
	}
	return out
}

// generic violations every engine run is checked for (attributed to the property by prefix)
func genericRunViolations(pfx string, r *simrt.Result, vl *vlist) {
	if r.StepCap {
		vl.add(pfx+"/step-cap", "the run hit the step cap (%d steps) without reaching quiescence: livelock or runaway", r.Steps)
	}
	if r.Horizon {
		vl.add(pfx+"/horizon", "the run hit the simulated-time horizon")
	}
}

func init() {
	Props["C01"] = &Scenario{
		Gen: func(d *Draw) Case {
			opts := ProgOpts{Kinds: []string{"seq", "xor", "and", "or", "loop", "sub", "condtask"}, MaxDepth: 3, MaxTasks: 12, OrEarlyEnd: true, Throws: true}
			// swarm: each run enables a random subset of composite kinds
			var kinds []string
			for _, k := range opts.Kinds {
				if d.N(3) != 0 {
					kinds = append(kinds, k)
				}
			}
			opts.Kinds = kinds
			// one run in four may contain known-finding triggers, the rest avoids them all
			if d.N(4) == 3 {
				opts.SubInLoop = true
				opts.ForkInOr = true
				opts.OrInAnd = true
				opts.ActivityMultiFork = true
			}
			opts.MaxDepth = 1 + d.N(2)
			opts.MaxTasks = 3 + d.N(6)
			opts.DataConds = d.Bool()
			opts.StartFork = d.Bool()
			opts.ActivityDefault = d.Bool()
			opts.EmptyBranches = d.Bool()
			opts.Fuse = d.Bool()
			prog := GenProgram(d, opts)
			c := &ProcCase{Prog: prog, Buf: d.N(17), Hold: d.N(3)}
			c.Picks = drawPicks(d, 48)
			return c
		},
		Check: func(cc Case, r *simrt.Result) *Outcome {
			c := cc.(*ProcCase)
			o := &Outcome{}
			var vl vlist
			genericRunViolations("C01", r, &vl)
			tg := CheckTokenGame("C01", c.Prog, c.env.L.E)
			vl.v = append(vl.v, tg.Viol...)
			for _, p := range r.Panics {
				vl.add("C01/panic", "%s", p)
			}
			o.Viol = vl.v
			nreq := 0
			for _, n := range tg.Requests {
				nreq += n
			}
			o.Nontrivial = r.Switches > 0 && nreq >= 2
			probe(o, "condition-reads-upstream-task-result", c.Prog.DataConds > 0)
			for _, t := range c.Prog.Tags {
				probe(o, "program-has:"+t, true)
			}
			o.Tags = c.Prog.Tags
			o.Sample = map[string]any{"program": c.Prog.Desc, "vars": c.Prog.Vars, "buf": c.Buf, "hold": c.Hold, "requests": tg.Requests, "ends": tg.M.Ends}
			return o
		},
	}
}
