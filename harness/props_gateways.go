package zzverif

import (
	"fmt"
	"strings"

	"verif/sim/simrt"
)

// ---------- C03: parallel gateway N x M ----------

// genC03Burst: R tokens traverse the N x M gateway at the same time (R requests queued on every
// upstream task). The answer plan works in rounds (the r-th request of every upstream task before any
// (r+1)-th), so each activation receives exactly one token per incoming flow, but activations follow
// each other without any pause.
func genC03Burst(d *Draw) Case {
	defs := &Definitions{}
	g := &Graph{ID: "P1", Executable: true}
	defs.Procs = []*Graph{g}
	n := 1 + d.N(3)
	m := 1 + d.N(3)
	rr := 2 + d.N(2)
	mk := func(id string) *Node {
		return g.addNode(&Node{ID: id, Kind: "task", Results: []string{"r_" + id}})
	}
	g.addNode(&Node{ID: "Start", Kind: "start"})
	g.addNode(&Node{ID: "AF", Kind: "and"})
	g.connect(defs, "Start", "AF", nil, -1)
	g.addNode(&Node{ID: "XM", Kind: "xor"})
	for i := 0; i < rr; i++ {
		g.connect(defs, "AF", "XM", nil, -1)
	}
	g.addNode(&Node{ID: "F", Kind: "and"})
	g.connect(defs, "XM", "F", nil, -1)
	g.addNode(&Node{ID: "G", Kind: "and"})
	for i := 1; i <= n; i++ {
		u := mk(fmt.Sprintf("U%d", i))
		g.connect(defs, "F", u.ID, nil, -1)
		g.connect(defs, u.ID, "G", nil, -1)
	}
	for j := 1; j <= m; j++ {
		dn := mk(fmt.Sprintf("D%d", j))
		g.connect(defs, "G", dn.ID, nil, -1)
		e := g.addNode(&Node{ID: fmt.Sprintf("E%d", j), Kind: "end"})
		g.connect(defs, dn.ID, e.ID, nil, -1)
	}
	g.index()
	prog := &Program{Defs: defs, Vars: map[string]any{}, Desc: fmt.Sprintf("parallel %dx%d burst of %d overlapping activations", n, m, rr)}
	c := &ProcCase{Prog: prog, Buf: d.N(17), Hold: 1, Rounds: true}
	c.Picks = drawPicks(d, 40)
	if len(c.Picks) == 0 {
		c.Picks = []int{1}
	}
	c.Picks[0] |= 1 // hold once at the start so that every upstream request is pending
	c.Meta = map[string]int{"n": n, "m": m, "acts": rr, "burst": 1}
	return c
}

// genC03MultiStart: the incoming flows of a parallel join come from the start events of a sub-process (two or three
// of them, each optionally followed by a task), and the sub-process is entered 1-3 times through a loop: every
// activation brings one token per start event, the join releases one token per outgoing flow each time.
func genC03MultiStart(d *Draw) Case {
	defs := &Definitions{}
	g := &Graph{ID: "P1", Executable: true}
	defs.Procs = []*Graph{g}
	k := 2 + d.N(2)
	acts := 1 + d.N(3)
	mk := func(gg *Graph, id string, res ...string) *Node {
		return gg.addNode(&Node{ID: id, Kind: "task", Results: append([]string{"r_" + id}, res...)})
	}
	g.addNode(&Node{ID: "Start", Kind: "start"})
	g.addNode(&Node{ID: "LM", Kind: "xor"})
	g.connect(defs, "Start", "LM", nil, -1)
	sg := &Graph{ID: "WG"}
	g.addNode(&Node{ID: "W", Kind: "sub", Sub: sg})
	g.connect(defs, "LM", "W", nil, -1)
	sg.addNode(&Node{ID: "G", Kind: "and"})
	nd := 0
	for i := 1; i <= k; i++ {
		st := sg.addNode(&Node{ID: fmt.Sprintf("WS%d", i), Kind: "start"})
		cur := st.ID
		if d.Bool() {
			t := mk(sg, fmt.Sprintf("U%d", i))
			sg.connect(defs, cur, t.ID, nil, -1)
			cur = t.ID
		} else {
			nd++
		}
		sg.connect(defs, cur, "G", nil, -1)
	}
	mk(sg, "D1")
	sg.connect(defs, "G", "D1", nil, -1)
	sg.addNode(&Node{ID: "WE", Kind: "end"})
	sg.connect(defs, "D1", "WE", nil, -1)
	tc := g.addNode(&Node{ID: "TC", Kind: "task", Results: []string{"r_TC", "i_TC"}, Counter: "i_TC"})
	g.connect(defs, "W", tc.ID, nil, -1)
	g.addNode(&Node{ID: "LS", Kind: "xor"})
	g.connect(defs, "TC", "LS", nil, -1)
	g.connect(defs, "LS", "LM", &Cond{LtVar: "i_TC", Lt: acts}, -1)
	g.addNode(&Node{ID: "End", Kind: "end"})
	df := g.connect(defs, "LS", "End", nil, -1)
	g.Node("LS").Default = df.ID
	g.index()
	prog := &Program{Defs: defs, Vars: map[string]any{}, Tags: []string{"join-fed-by-start-events"},
		Desc: fmt.Sprintf("loop*%d( sub[ %d start events (%d with a task behind) -> parallel join G -> D1 ] )", acts, k, k-nd)}
	c := &ProcCase{Prog: prog, Buf: d.N(17), Hold: d.N(3), Picks: drawPicks(d, 32)}
	c.Meta = map[string]int{"n": k, "m": 1, "acts": acts, "nd": nd, "md": 0, "multistart": 1}
	return c
}

func genC03(d *Draw) Case {
	if d.N(7) == 6 {
		return genC03MultiStart(d)
	}
	if d.N(3) == 2 {
		return genC03Burst(d)
	}
	defs := &Definitions{}
	g := &Graph{ID: "P1", Executable: true}
	defs.Procs = []*Graph{g}
	n := 1 + d.N(4)
	m := 1 + d.N(4)
	acts := 1 + d.N(3) // consecutive activations of the same gateway
	mk := func(id string) *Node {
		return g.addNode(&Node{ID: id, Kind: "task", Results: []string{"r_" + id}})
	}
	g.addNode(&Node{ID: "Start", Kind: "start"})
	cur := "Start"
	if acts > 1 {
		g.addNode(&Node{ID: "LM", Kind: "xor"})
		g.connect(defs, cur, "LM", nil, -1)
		cur = "LM"
	}
	g.addNode(&Node{ID: "F", Kind: "and"})
	g.connect(defs, cur, "F", nil, -1)
	g.addNode(&Node{ID: "G", Kind: "and"})
	// conditions on flows that leave a parallel gateway have no say (tokens go out on every flow): some of the
	// flows leaving the fork and the gateway carry one that does not hold
	condOut := d.N(3) == 2
	never := func() *Cond {
		if condOut && d.Bool() {
			return &Cond{Var: "never", Want: true}
		}
		return nil
	}
	// some of the flows into and out of the gateway carry no activity: their tokens arrive the moment the
	// fork has fired, and leave straight into the closing join
	nd, md := 0, 0
	for i := 1; i <= n; i++ {
		if d.N(4) == 3 {
			g.connect(defs, "F", "G", never(), -1)
			nd++
			continue
		}
		u := mk(fmt.Sprintf("U%d", i))
		g.connect(defs, "F", u.ID, never(), -1)
		g.connect(defs, u.ID, "G", nil, -1)
	}
	g.addNode(&Node{ID: "J", Kind: "and"})
	for j := 1; j <= m; j++ {
		if d.N(4) == 3 {
			g.connect(defs, "G", "J", never(), -1)
			md++
			continue
		}
		dn := mk(fmt.Sprintf("D%d", j))
		g.connect(defs, "G", dn.ID, never(), -1)
		g.connect(defs, dn.ID, "J", nil, -1)
	}
	cur = "J"
	if acts > 1 {
		tc := mk("TC")
		tc.Results = append(tc.Results, "i_TC")
		tc.Counter = "i_TC"
		g.connect(defs, "J", "TC", nil, -1)
		g.addNode(&Node{ID: "LS", Kind: "xor"})
		g.connect(defs, "TC", "LS", nil, -1)
		g.connect(defs, "LS", "LM", &Cond{LtVar: "i_TC", Lt: acts}, -1)
		g.addNode(&Node{ID: "End", Kind: "end"})
		df := g.connect(defs, "LS", "End", nil, -1)
		g.Node("LS").Default = df.ID
	} else {
		g.addNode(&Node{ID: "End", Kind: "end"})
		g.connect(defs, "J", "End", nil, -1)
	}
	g.index()
	prog := &Program{Defs: defs, Vars: map[string]any{"never": false}, Desc: fmt.Sprintf("parallel %dx%d activations=%d (flows without activity: %d in, %d out; conditions on outgoing flows: %v)", n, m, acts, nd, md, condOut)}
	c := &ProcCase{Prog: prog, Buf: d.N(17), Hold: 1 + d.N(2)}
	c.Picks = drawPicks(d, 40)
	c.Meta = map[string]int{"n": n, "m": m, "acts": acts, "nd": nd, "md": md, "condOut": b2i(condOut)}
	return c
}

func checkC03(cc Case, r *simrt.Result) *Outcome {
	c := cc.(*ProcCase)
	o := &Outcome{}
	var vl vlist
	genericRunViolations("C03", r, &vl)
	tg := CheckTokenGame("C03", c.Prog, c.env.L.E)
	vl.v = append(vl.v, tg.Viol...)
	n, m, acts := c.Meta["n"], c.Meta["m"], c.Meta["acts"]
	// conservation at the gateway, counted from the trace stream alone
	arrivals, completions, upAns, downReq := 0, 0, 0, 0
	for _, ev := range c.env.L.E {
		switch {
		case ev.Kind == "t:visit" && ev.A == "G":
			arrivals++
		case ev.Kind == "t:completion" && ev.A == "G":
			completions++
		case ev.Kind == "ans" && strings.HasPrefix(ev.A, "U"):
			upAns++
		case ev.Kind == "t:task" && strings.HasPrefix(ev.A, "D"):
			downReq++
			// the k-th activation's downstream requests need all upstream answers of activations 1..k
			mt, nt := m-c.Meta["md"], n-c.Meta["nd"]
			k := (downReq-1)/mt + 1
			if upAns < k*nt {
				vl.add("C03/released-early", "step %d: downstream request #%d (activation %d) after only %d upstream answers, need %d", ev.Step, downReq, k, upAns, k*nt)
			}
		}
	}
	if tg.Quiesced && len(tg.Viol) == 0 {
		surplus := n - m
		if surplus < 0 {
			surplus = 0
		}
		if c.Meta["multistart"] == 1 {
			// (the gateway lies inside a sub-process: its visits and completions are not part of the observed stream
			// in the same form; the token game and the downstream count decide)
			arrivals, completions = n*acts, surplus*acts
		}
		if arrivals != n*acts {
			vl.add("C03/arrivals", "gateway visited %d times, want %d", arrivals, n*acts)
		}
		if completions != surplus*acts {
			vl.add("C03/surplus", "surplus tokens completed at the gateway: %d, want %d (N=%d M=%d activations=%d)", completions, surplus*acts, n, m, acts)
		}
		if want := (m - c.Meta["md"]) * acts; downReq != want {
			vl.add("C03/token-count", "downstream requests %d, want %d", downReq, want)
		}
	}
	for _, p := range r.Panics {
		vl.add("C03/panic", "%s", p)
	}
	o.Viol = vl.v
	o.Nontrivial = r.Switches > 0 && (n > 1 || m > 1)
	probe(o, "reactivated", acts > 1)
	probe(o, "overlapping-activations", c.Meta["burst"] == 1)
	probe(o, "surplus-consumed", completions > 0)
	probe(o, "fanout-gt-fanin", m > n)
	probe(o, "flows-without-activity-at-the-gateway", c.Meta["nd"]+c.Meta["md"] > 0)
	probe(o, "conditions-on-flows-leaving-parallel-gateways", c.Meta["condOut"] == 1)
	probe(o, "join-fed-by-the-start-events-of-a-sub-process", c.Meta["multistart"] == 1)
	probe(o, "join-fed-by-start-events-re-entered", c.Meta["multistart"] == 1 && acts > 1)
	o.Sample = map[string]any{"program": c.Prog.Desc, "buf": c.Buf, "hold": c.Hold, "answer_order": answerOrder(c.env)}
	return o
}

func answerOrder(env *Env) []string {
	var out []string
	for _, ev := range env.L.E {
		if ev.Kind == "ans" {
			out = append(out, ev.A)
		}
	}
	return out
}

// ---------- C04: exclusive gateway ----------

// genC04PerToken: k tokens reach the gateway concurrently, each after its own upstream task wrote a
// different value of x; the conditions are "x == j". What each token saw is recorded by the spying
// expression language, so the oracle needs no assumption about the relative speed of the branches.
func genC04PerToken(d *Draw) Case {
	defs := &Definitions{}
	g := &Graph{ID: "P1", Executable: true}
	defs.Procs = []*Graph{g}
	k := 2 + d.N(2)
	nc := 2 + d.N(2)
	hasDefault := d.N(2) == 1
	total := nc
	if hasDefault {
		total++
	}
	defPos := d.N(total)
	g.addNode(&Node{ID: "Start", Kind: "start"})
	g.addNode(&Node{ID: "F", Kind: "and"})
	g.connect(defs, "Start", "F", nil, -1)
	g.addNode(&Node{ID: "X", Kind: "xor"})
	for i := 1; i <= k; i++ {
		u := g.addNode(&Node{ID: fmt.Sprintf("U%d", i), Kind: "task", Results: []string{"x"}, Writes: map[string]any{"x": 1 + d.N(nc+1)}})
		g.connect(defs, "F", u.ID, nil, -1)
		g.connect(defs, u.ID, "X", nil, -1)
	}
	ci := 0
	for pos := 0; pos < total; pos++ {
		b := g.addNode(&Node{ID: fmt.Sprintf("B%d", pos+1), Kind: "task"})
		e := g.addNode(&Node{ID: fmt.Sprintf("E%d", pos+1), Kind: "end"})
		if hasDefault && pos == defPos {
			f := g.connect(defs, "X", b.ID, nil, -1)
			g.Node("X").Default = f.ID
		} else {
			ci++
			g.connect(defs, "X", b.ID, &Cond{Lang: "spy", Raw: fmt.Sprintf("x == %d", ci)}, -1)
		}
		g.connect(defs, b.ID, e.ID, nil, -1)
	}
	g.index()
	prog := &Program{Defs: defs, Vars: map[string]any{"x": 0}, Desc: fmt.Sprintf("per-token data: tokens=%d conds=%d default=%v@%d", k, nc, hasDefault, defPos), Tags: []string{"per-token-data"}}
	c := &ProcCase{Prog: prog, Buf: d.N(17), Hold: d.N(3)}
	c.Picks = drawPicks(d, 24)
	c.Meta = map[string]int{"k": k, "pertoken": 1, "nc": nc}
	return c
}

func checkC04PerToken(c *ProcCase, r *simrt.Result) *Outcome {
	o := &Outcome{}
	var vl vlist
	genericRunViolations("C04", r, &vl)
	for _, p := range r.Panics {
		vl.add("C04/panic", "%s", p)
	}
	g := c.Prog.Defs.Procs[0]
	x := g.Node("X")
	// listed non-default flows and their targets
	var nd []*Flow
	for _, fid := range x.Out {
		if fid != x.Default {
			nd = append(nd, g.Flow(fid))
		}
	}
	evals := map[int][]bool{}
	var order []int
	got := map[string]int{}
	errs := 0
	quiesced := false
	for _, ev := range c.env.L.E {
		switch ev.Kind {
		case "eval":
			if _, ok := evals[ev.G]; !ok {
				order = append(order, ev.G)
			}
			evals[ev.G] = append(evals[ev.G], ev.B == "true")
		case "t:task":
			if strings.HasPrefix(ev.A, "B") {
				got[ev.A]++
			}
		case "t:error":
			if strings.Contains(ev.B, "`X`") {
				errs++
			} else {
				vl.add("C04/unexpected-error-trace", "%s: %s", ev.A, ev.B)
			}
		case "quiescent":
			quiesced = true
		case "fatal":
			vl.add("C04/harness", "%s", ev.A)
		}
	}
	if !quiesced {
		vl.add("C04/no-quiescence", "the run did not reach terminal quiescence")
	}
	want := map[string]int{}
	wantErr := 0
	tokens := 0
	for _, gid := range order {
		v := evals[gid]
		for len(v) >= len(nd) && len(nd) > 0 {
			tokens++
			chosen := ""
			for i := 0; i < len(nd); i++ {
				if v[i] {
					chosen = nd[i].To
					break
				}
			}
			if chosen == "" && x.Default != "" {
				chosen = g.Flow(x.Default).To
			}
			if chosen == "" {
				wantErr++
			} else {
				want[chosen]++
			}
			v = v[len(nd):]
		}
		if len(v) != 0 {
			vl.add("C04/harness", "token goroutine %d evaluated %d conditions, not a multiple of %d", gid, len(evals[gid]), len(nd))
		}
	}
	if quiesced {
		if tokens != c.Meta["k"] {
			vl.add("C04/token-count", "%d tokens evaluated the gateway's conditions, %d arrived", tokens, c.Meta["k"])
		}
		keys := map[string]bool{}
		for k := range want {
			keys[k] = true
		}
		for k := range got {
			keys[k] = true
		}
		for k := range keys {
			if want[k] != got[k] {
				vl.add("C04/wrong-branch", "branch task %s requested %d time(s); the condition values the tokens evaluated (first true in listed order, else default) prescribe %d (all: got=%v want=%v errors got=%d want=%d)", k, got[k], want[k], got, want, errs, wantErr)
			}
		}
		if errs != wantErr {
			vl.add("C04/missing-error-trace", "ErrorTrace naming the gateway seen %d time(s), %d token(s) had no true condition and no default", errs, wantErr)
		}
	}
	o.Viol = vl.v
	o.Tags = c.Prog.Tags
	o.Nontrivial = r.Switches > 0
	distinct := 0
	for range want {
		distinct++
	}
	probe(o, "per-token-data", true)
	probe(o, "tokens-took-different-branches", distinct > 1)
	o.Sample = map[string]any{"program": c.Prog.Desc, "evaluations": evals, "taken": got, "buf": c.Buf, "hold": c.Hold}
	return o
}

// genC04Stale: a token passes a first exclusive gateway, waits in a task that stores nothing, and then meets a second
// gateway whose conditions read a variable that a sibling token's task has changed in between (or not yet): every
// evaluation has to see the variables as they are at that moment, not as they were when the token last looked.
func genC04Stale(d *Draw) Case {
	defs := &Definitions{}
	g := &Graph{ID: "P1", Executable: true}
	defs.Procs = []*Graph{g}
	init := d.Bool()
	vars := map[string]any{"flip": init}
	g.addNode(&Node{ID: "Start", Kind: "start"})
	g.addNode(&Node{ID: "F", Kind: "and"})
	g.connect(defs, "Start", "F", nil, -1)
	g.addNode(&Node{ID: "X1", Kind: "xor"})
	// racy: a task in front of the first gateway is answered at the same moment as the sibling that writes flip, so the
	// gateway reads the variables (its condition is on another one, which never changes: the outcome is fixed) while
	// the write is going on - whatever a reader keeps of what it read then must not decide the second gateway
	racy := d.Bool()
	if racy {
		g.addNode(&Node{ID: "TA0", Kind: "task"})
		g.connect(defs, "F", "TA0", nil, -1)
		g.connect(defs, "TA0", "X1", nil, -1)
		vars["other"] = true
	} else {
		g.connect(defs, "F", "X1", nil, -1)
	}
	g.addNode(&Node{ID: "TA", Kind: "task"}) // declares no results: answering it stores nothing
	if racy {
		g.connect(defs, "X1", "TA", &Cond{Var: "other", Want: true}, -1)
	} else {
		g.connect(defs, "X1", "TA", &Cond{Var: "flip", Want: init}, -1)
	}
	g.addNode(&Node{ID: "TD1", Kind: "task", Results: []string{"r_TD1"}})
	df := g.connect(defs, "X1", "TD1", nil, -1)
	g.Node("X1").Default = df.ID
	g.addNode(&Node{ID: "ED1", Kind: "end"})
	g.connect(defs, "TD1", "ED1", nil, -1)
	cur := "TA"
	if d.Bool() {
		g.addNode(&Node{ID: "TA2", Kind: "task"})
		g.connect(defs, "TA", "TA2", nil, -1)
		cur = "TA2"
	}
	g.addNode(&Node{ID: "X2", Kind: "xor"})
	g.connect(defs, cur, "X2", nil, -1)
	lang := ""
	if d.Bool() {
		lang = "xpath"
	}
	for _, br := range []struct {
		id   string
		want bool
	}{{"Told", init}, {"Tnew", !init}} {
		g.addNode(&Node{ID: br.id, Kind: "task", Results: []string{"r_" + br.id}})
		g.connect(defs, "X2", br.id, &Cond{Var: "flip", Want: br.want, Lang: lang}, -1)
		g.addNode(&Node{ID: "E" + br.id, Kind: "end"})
		g.connect(defs, br.id, "E"+br.id, nil, -1)
	}
	g.addNode(&Node{ID: "Tdef", Kind: "task", Results: []string{"r_Tdef"}})
	df2 := g.connect(defs, "X2", "Tdef", nil, -1)
	g.Node("X2").Default = df2.ID
	g.addNode(&Node{ID: "Edef", Kind: "end"})
	g.connect(defs, "Tdef", "Edef", nil, -1)
	// the sibling that changes the variable (once or twice)
	g.addNode(&Node{ID: "TB", Kind: "task", Results: []string{"r_TB", "flip"}, Writes: map[string]any{"flip": !init}})
	g.connect(defs, "F", "TB", nil, -1)
	cur = "TB"
	if d.N(3) == 2 {
		g.addNode(&Node{ID: "TB2", Kind: "task", Results: []string{"r_TB2", "flip"}, Writes: map[string]any{"flip": init}})
		g.connect(defs, "TB", "TB2", nil, -1)
		cur = "TB2"
	}
	g.addNode(&Node{ID: "EB", Kind: "end"})
	g.connect(defs, cur, "EB", nil, -1)
	g.index()
	prog := &Program{Defs: defs, Vars: vars, Desc: fmt.Sprintf("second gateway reads flip (initially %v) that a sibling task flips while the token waits in a task without results", init), Tags: []string{"stale-variables"}}
	// answers only when the engine is at rest: a sibling's result is then stored before the next answer is given
	c := &ProcCase{Prog: prog, Buf: d.N(17), Hold: 2}
	c.Picks = drawPicks(d, 24)
	c.Meta = map[string]int{"k": 1, "racy": b2i(racy)}
	if racy {
		c.Together = []string{"TA0", "TB"}
		prog.Desc += " [the first gateway reads the variables while the sibling's answer is stored]"
	}
	return c
}

// genC04Loop: one token passes the same exclusive gateway several times (a loop), and what the gateway has to
// decide changes from pass to pass: the default first and a condition later, or the other way round. Whatever
// the gateway (or the flow) remembers of an earlier pass must not decide a later one.
func genC04Loop(d *Draw) Case {
	defs := &Definitions{}
	g := &Graph{ID: "P1", Executable: true}
	defs.Procs = []*Graph{g}
	rounds := 2 + d.N(3)
	exitByCond := d.Bool() // the loop is left over a condition (and continued by default), or continued over a condition
	lang := ""
	if d.N(3) == 2 {
		lang = "xpath"
	}
	g.addNode(&Node{ID: "Start", Kind: "start"})
	g.addNode(&Node{ID: "LM", Kind: "xor"})
	g.connect(defs, "Start", "LM", nil, -1)
	tw := g.addNode(&Node{ID: "TW", Kind: "task", Results: []string{"r_TW", "n"}, Counter: "n"})
	g.connect(defs, "LM", tw.ID, nil, -1)
	g.addNode(&Node{ID: "X", Kind: "xor"})
	g.connect(defs, tw.ID, "X", nil, -1)
	g.addNode(&Node{ID: "TD", Kind: "task", Results: []string{"r_TD"}})
	g.addNode(&Node{ID: "E", Kind: "end"})
	g.connect(defs, "TD", "E", nil, -1)
	// an optional further conditional flow that never holds, listed first
	vars := map[string]any{}
	if d.Bool() {
		vars["never"] = false
		g.addNode(&Node{ID: "TN", Kind: "task"})
		g.addNode(&Node{ID: "EN", Kind: "end"})
		g.connect(defs, "X", "TN", &Cond{Var: "never", Want: true, Lang: lang}, -1)
		g.connect(defs, "TN", "EN", nil, -1)
	}
	back, out := "LM", "TD"
	if d.Bool() {
		// the way back leads through a task
		g.addNode(&Node{ID: "TB", Kind: "task", Results: []string{"r_TB"}})
		g.connect(defs, "TB", "LM", nil, -1)
		back = "TB"
	}
	connectBoth := func(first bool) {
		if exitByCond {
			if first {
				g.connect(defs, "X", out, &Cond{LtVar: "n", Lt: rounds, Ge: true, Lang: lang}, -1)
			} else {
				f := g.connect(defs, "X", back, nil, -1)
				g.Node("X").Default = f.ID
			}
		} else {
			if first {
				g.connect(defs, "X", back, &Cond{LtVar: "n", Lt: rounds, Lang: lang}, -1)
			} else {
				f := g.connect(defs, "X", out, nil, -1)
				g.Node("X").Default = f.ID
			}
		}
	}
	if d.Bool() { // the default is listed before or after the conditional flow
		connectBoth(true)
		connectBoth(false)
	} else {
		connectBoth(false)
		connectBoth(true)
	}
	g.index()
	tags := []string{"gateway-in-loop"}
	if lang == "xpath" {
		tags = append(tags, "xpath")
	}
	prog := &Program{Defs: defs, Vars: vars, Desc: fmt.Sprintf("one token passes the gateway %d times (loop), leaves the loop by condition=%v, lang=%q", rounds, exitByCond, lang), Tags: tags}
	c := &ProcCase{Prog: prog, Buf: d.N(17), Hold: d.N(3)}
	c.Picks = drawPicks(d, 24)
	c.Meta = map[string]int{"k": 1, "loop": rounds}
	return c
}

func genC04(d *Draw) Case {
	switch d.N(7) {
	case 4:
		return genC04PerToken(d)
	case 5:
		return genC04Stale(d)
	case 6:
		return genC04Loop(d)
	}
	if d.N(3) == 2 {
		return genC04PerToken(d)
	}
	defs := &Definitions{}
	g := &Graph{ID: "P1", Executable: true}
	defs.Procs = []*Graph{g}
	vars := map[string]any{}
	k := 1 + d.N(3)  // concurrent tokens
	nc := 1 + d.N(4) // conditional flows
	hasDefault := d.N(3) != 2
	total := nc
	if hasDefault {
		total++
	}
	defPos := d.N(total)
	lang := d.N(3) // 0 expr, 1 xpath, 2 mixed
	objCond := d.N(5) == 4
	tags := map[string]bool{}
	mk := func(id string) *Node {
		return g.addNode(&Node{ID: id, Kind: "task", Results: []string{"r_" + id}})
	}
	g.addNode(&Node{ID: "Start", Kind: "start"})
	g.addNode(&Node{ID: "X", Kind: "xor"})
	if k == 1 {
		if d.Bool() {
			u := mk("U1")
			g.connect(defs, "Start", u.ID, nil, -1)
			g.connect(defs, u.ID, "X", nil, -1)
		} else {
			g.connect(defs, "Start", "X", nil, -1)
		}
	} else {
		g.addNode(&Node{ID: "F", Kind: "and"})
		g.connect(defs, "Start", "F", nil, -1)
		// the k tokens reach the gateway over k incoming flows, or all over a single one (behind a merge):
		// then there are more tokens inside the gateway at once than it has incoming flows
		into := "X"
		if d.Bool() {
			g.addNode(&Node{ID: "M", Kind: "xor"})
			into = "M"
			tags["single-incoming-flow"] = true
		}
		for i := 1; i <= k; i++ {
			u := mk(fmt.Sprintf("U%d", i))
			g.connect(defs, "F", u.ID, nil, -1)
			g.connect(defs, u.ID, into, nil, -1)
		}
		if into == "M" {
			g.connect(defs, "M", "X", nil, -1)
		}
	}
	var desc []string
	ci := 0
	for pos := 0; pos < total; pos++ {
		b := mk(fmt.Sprintf("B%d", pos+1))
		e := g.addNode(&Node{ID: fmt.Sprintf("E%d", pos+1), Kind: "end"})
		var c *Cond
		if hasDefault && pos == defPos {
			f := g.connect(defs, "X", b.ID, nil, -1)
			g.Node("X").Default = f.ID
			desc = append(desc, "default")
		} else {
			ci++
			v := fmt.Sprintf("c%d", ci)
			val := d.Bool()
			want := d.N(4) != 3
			c = &Cond{Var: v, Want: want}
			if objCond && ci == 1 {
				c = &Cond{Obj: v, Want: want}
				tags["dataobject-cond"] = true
			} else if lang == 1 || (lang == 2 && d.Bool()) {
				c.Lang = "xpath"
				tags["xpath"] = true
			}
			vars[v] = val
			if d.N(8) == 7 {
				// an informal expression (no xsi:type): not executable, the flow counts as true
				c.Informal = true
				tags["informal-expression"] = true
			}
			g.connect(defs, "X", b.ID, c, -1)
			desc = append(desc, fmt.Sprintf("%s=%v", v, c.Informal || val == want))
		}
		g.connect(defs, b.ID, e.ID, nil, -1)
	}
	g.index()
	var tl []string
	for t := range tags {
		tl = append(tl, t)
	}
	prog := &Program{Defs: defs, Vars: vars, Desc: fmt.Sprintf("tokens=%d xor[%s]", k, strings.Join(desc, " | ")), Tags: tl}
	c := &ProcCase{Prog: prog, Buf: d.N(17), Hold: d.N(3)}
	c.Picks = drawPicks(d, 24)
	c.Meta = map[string]int{"k": k}
	if objCond {
		c.Objs = map[string]any{"c1": vars["c1"]}
		prog.Objs = c.Objs
		g.DataObjects = []string{"c1"}
	}
	return c
}

func checkC04(cc Case, r *simrt.Result) *Outcome {
	c := cc.(*ProcCase)
	if c.Meta["pertoken"] == 1 {
		return checkC04PerToken(c, r)
	}
	o := &Outcome{}
	var vl vlist
	genericRunViolations("C04", r, &vl)
	tg := CheckTokenGame("C04", c.Prog, c.env.L.E)
	vl.v = append(vl.v, tg.Viol...)
	for _, p := range r.Panics {
		vl.add("C04/panic", "%s", p)
	}
	// per token exactly one branch, directly from the trace stream: FlowTrace with Source = the gateway
	flows := 0
	for _, ev := range c.env.L.E {
		if ev.Kind == "t:flow" && ev.A == "X" {
			flows++
			if strings.Contains(ev.B, ",") {
				vl.add("C04/multiple-branches", "step %d: the exclusive gateway put one token on several flows: %s", ev.Step, ev.B)
			}
		}
	}
	o.Viol = vl.v
	o.Tags = c.Prog.Tags
	o.Nontrivial = r.Switches > 0
	probe(o, "concurrent-tokens", c.Meta["k"] > 1)
	probe(o, "one-token-passes-the-gateway-several-times", c.Meta["loop"] > 0)
	probe(o, "no-effective-flow", len(tg.M.Errors) > 0)
	probe(o, "xpath", hasTag(c.Prog.Tags, "xpath"))
	probe(o, "informal-expression", hasTag(c.Prog.Tags, "informal-expression"))
	probe(o, "several-tokens-over-one-incoming-flow", hasTag(c.Prog.Tags, "single-incoming-flow"))
	probe(o, "variable-changed-by-sibling-between-two-gateways", hasTag(c.Prog.Tags, "stale-variables"))
	probe(o, "gateway-reads-the-variables-while-a-sibling's-answer-is-stored", c.Meta["racy"] == 1 && c.env.FaultCounts()["answers-at-the-same-moment"] > 0)
	o.Sample = map[string]any{"program": c.Prog.Desc, "vars": c.Prog.Vars, "buf": c.Buf, "hold": c.Hold, "requests": tg.Requests, "tags": c.Prog.Tags}
	return o
}

func hasTag(tags []string, t string) bool {
	for _, x := range tags {
		if x == t {
			return true
		}
	}
	return false
}

// ---------- C05: inclusive gateway ----------

// genC05Race: the variable an inclusive fork's condition reads is written by the answer of a task on a parallel
// branch at about the moment the token arrives at the fork. Whichever value the fork sees, it has to act on one
// of them: the conditional flow, or the default flow alone - never both, and never no flow at all without an error
// trace. (No token game here: which value the fork sees is the schedule's choice; the check accepts either.)
func genC05Race(d *Draw) Case {
	defs := &Definitions{}
	g := &Graph{ID: "P1", Executable: true}
	defs.Procs = []*Graph{g}
	mk := func(id string, res ...string) *Node {
		return g.addNode(&Node{ID: id, Kind: "task", Results: append([]string{"r_" + id}, res...)})
	}
	g.addNode(&Node{ID: "Start", Kind: "start"})
	g.addNode(&Node{ID: "PF", Kind: "and"})
	g.connect(defs, "Start", "PF", nil, -1)
	// the writer branch
	cur := "PF"
	for i, n := 0, d.N(3); i < n; i++ {
		th := g.addNode(&Node{ID: fmt.Sprintf("TH%d", i+1), Kind: "throw"})
		g.connect(defs, cur, th.ID, nil, -1)
		cur = th.ID
	}
	mk("TW", "x")
	g.connect(defs, cur, "TW", nil, -1)
	g.addNode(&Node{ID: "EW", Kind: "end"})
	g.connect(defs, "TW", "EW", nil, -1)
	// the forking branch
	cur = "PF"
	if d.Bool() {
		mk("TG")
		g.connect(defs, cur, "TG", nil, -1)
		cur = "TG"
	}
	was := d.Bool()
	g.addNode(&Node{ID: "OF", Kind: "or"})
	g.connect(defs, cur, "OF", nil, -1)
	mk("TA")
	mk("TD")
	defFirst := d.Bool()
	if defFirst {
		df := g.connect(defs, "OF", "TD", nil, -1)
		g.Node("OF").Default = df.ID
	}
	g.connect(defs, "OF", "TA", &Cond{Var: "x", Want: was}, -1)
	if !defFirst {
		df := g.connect(defs, "OF", "TD", nil, -1)
		g.Node("OF").Default = df.ID
	}
	g.addNode(&Node{ID: "OJ", Kind: "or"})
	g.connect(defs, "TA", "OJ", nil, -1)
	g.connect(defs, "TD", "OJ", nil, -1)
	mk("TE")
	g.connect(defs, "OJ", "TE", nil, -1)
	g.addNode(&Node{ID: "End", Kind: "end"})
	g.connect(defs, "TE", "End", nil, -1)
	g.index()
	prog := &Program{Defs: defs, Vars: map[string]any{"x": was}, Tags: []string{"condition-variable-written-while-forking"},
		Desc: fmt.Sprintf("and[ TW(writes x=%v) | or-fork[x==%v -> TA | default -> TD] -> join -> TE ], x=%v at the start", !was, was, was)}
	c := &ProcCase{Prog: prog, Buf: d.N(17), Hold: 0, Picks: drawPicks(d, 24)}
	c.Scripts = map[string][]AnswerSpec{"TW": {{Results: map[string]any{"x": !was}}}}
	c.Stress = &Stress{ConcAnswers: true}
	c.Meta = map[string]int{"race": 1, "acts": 1}
	return c
}

func genC05(d *Draw) Case {
	if d.N(6) == 5 {
		return genC05Race(d)
	}
	defs := &Definitions{}
	g := &Graph{ID: "P1", Executable: true}
	defs.Procs = []*Graph{g}
	vars := map[string]any{}
	nc := 1 + d.N(4)
	hasDefault := d.N(3) != 2
	total := nc
	if hasDefault {
		total++
	}
	defPos := d.N(total)
	acts := 1
	if d.N(3) == 2 {
		acts = 2 + d.N(2) // the fork/join pair is re-entered through a loop
	}
	siblings := 0
	if d.N(2) == 1 {
		siblings = 1 + d.N(2) // unrelated parallel activity next to the inclusive block
	}
	mk := func(id string) *Node {
		return g.addNode(&Node{ID: id, Kind: "task", Results: []string{"r_" + id}})
	}
	g.addNode(&Node{ID: "Start", Kind: "start"})
	cur := "Start"
	if siblings > 0 {
		g.addNode(&Node{ID: "PA", Kind: "and"})
		g.connect(defs, cur, "PA", nil, -1)
		cur = "PA" // the inclusive block hangs on the first outgoing flow of the fork
	}
	if acts > 1 {
		g.addNode(&Node{ID: "LM", Kind: "xor"})
		g.connect(defs, cur, "LM", nil, -1)
		cur = "LM"
	}
	t0 := mk("T0")
	g.connect(defs, cur, t0.ID, nil, -1)
	g.addNode(&Node{ID: "O", Kind: "or"})
	g.connect(defs, t0.ID, "O", nil, -1)
	g.addNode(&Node{ID: "OJ", Kind: "or"})
	// a gateway that joins and forks at once between the fork and the join: the tokens of the first level are
	// merged there and leave again over every true outgoing flow (one token game step, but several tokens and
	// several flow traces in the engine)
	mixed := acts == 1 && d.N(4) == 3
	join1 := "OJ"
	if mixed {
		g.addNode(&Node{ID: "M", Kind: "or"})
		join1 = "M"
	}
	var desc []string
	ci := 0
	joined := 0
	early := 0
	directs := 0
	for pos := 0; pos < total; pos++ {
		// a branch without any activity: a sequence flow straight from the fork to the join (the token is at the
		// join before anybody has had time to take in what the fork announced)
		direct := d.N(4) == 3
		target := join1
		var b *Node
		if !direct {
			b = mk(fmt.Sprintf("B%d", pos+1))
			target = b.ID
		}
		if hasDefault && pos == defPos {
			f := g.connect(defs, "O", target, nil, -1)
			g.Node("O").Default = f.ID
			desc = append(desc, "default")
		} else {
			ci++
			v := fmt.Sprintf("c%d", ci)
			val := d.Bool()
			want := d.N(4) != 3
			vars[v] = val
			g.connect(defs, "O", target, &Cond{Var: v, Want: want}, -1)
			desc = append(desc, fmt.Sprintf("%s=%v", v, val == want))
		}
		if direct {
			desc[len(desc)-1] += "(direct)"
			directs++
			joined++
			continue
		}
		last := b.ID
		if d.N(3) == 2 { // a second task on the branch
			b2 := mk(fmt.Sprintf("B%db", pos+1))
			g.connect(defs, last, b2.ID, nil, -1)
			last = b2.ID
		}
		if d.N(4) == 3 && !(pos == total-1 && joined == 0) {
			e := g.addNode(&Node{ID: fmt.Sprintf("EE%d", pos+1), Kind: "end"})
			g.connect(defs, last, e.ID, nil, -1)
			desc[len(desc)-1] += "(ends)"
			early++
		} else {
			g.connect(defs, last, join1, nil, -1)
			joined++
		}
	}
	if mixed {
		k := 2 + d.N(2)
		anyTrue := false
		var md []string
		for i := 1; i <= k; i++ {
			v := fmt.Sprintf("m%d", i)
			val := d.Bool()
			if i == k && !anyTrue {
				val = true
			}
			anyTrue = anyTrue || val
			vars[v] = val
			target := "OJ"
			if d.N(4) != 3 {
				mb := mk(fmt.Sprintf("MB%d", i))
				g.connect(defs, mb.ID, "OJ", nil, -1)
				target = mb.ID
			}
			g.connect(defs, "M", target, &Cond{Var: v, Want: true}, -1)
			md = append(md, fmt.Sprintf("%s=%v", v, val))
		}
		desc = append(desc, "then mixed gateway["+strings.Join(md, " | ")+"]")
	}
	ta := mk("TA")
	g.connect(defs, "OJ", ta.ID, nil, -1)
	cur = ta.ID
	if acts > 1 {
		ta.Results = append(ta.Results, "i_TA")
		ta.Counter = "i_TA"
		g.addNode(&Node{ID: "LS", Kind: "xor"})
		g.connect(defs, cur, "LS", nil, -1)
		g.connect(defs, "LS", "LM", &Cond{LtVar: "i_TA", Lt: acts}, -1)
		g.addNode(&Node{ID: "LX", Kind: "xor"})
		df := g.connect(defs, "LS", "LX", nil, -1)
		g.Node("LS").Default = df.ID
		cur = "LX"
	}
	if siblings > 0 {
		g.addNode(&Node{ID: "PJ", Kind: "and"})
		g.connect(defs, cur, "PJ", nil, -1)
		for s := 1; s <= siblings; s++ {
			prev := "PA"
			for k := 0; k < 1+d.N(3); k++ {
				t := mk(fmt.Sprintf("Q%d_%d", s, k+1))
				g.connect(defs, prev, t.ID, nil, -1)
				prev = t.ID
			}
			g.connect(defs, prev, "PJ", nil, -1)
		}
		cur = "PJ"
	}
	g.addNode(&Node{ID: "End", Kind: "end"})
	g.connect(defs, cur, "End", nil, -1)
	g.index()
	prog := &Program{Defs: defs, Vars: vars, Desc: fmt.Sprintf("or[%s] activations=%d parallel-siblings=%d", strings.Join(desc, " | "), acts, siblings)}
	c := &ProcCase{Prog: prog, Buf: d.N(17), Hold: d.N(3)}
	c.Picks = drawPicks(d, 40)
	c.Meta = map[string]int{"early": early, "acts": acts, "siblings": siblings, "directs": directs, "mixed": b2i(mixed)}
	return c
}

func checkC05(cc Case, r *simrt.Result) *Outcome {
	c := cc.(*ProcCase)
	o := &Outcome{}
	var vl vlist
	genericRunViolations("C05", r, &vl)
	if c.Meta["race"] == 1 {
		req := map[string]int{}
		errs, complete, quiesced := 0, false, false
		for _, ev := range c.env.L.E {
			switch ev.Kind {
			case "t:task":
				req[ev.A]++
			case "t:error":
				errs++
			case "quiescent":
				quiesced = true
			case "complete":
				if ev.A == "true" && !quiesced {
					complete = true
				}
			}
		}
		for _, p := range r.Panics {
			vl.add("C05/panic", "%s", p)
		}
		if !r.StepCap && !r.Horizon {
			switch {
			case req["TA"]+req["TD"] == 0 && errs == 0:
				vl.add("C05/no-token-placed", "the inclusive fork placed no token on any outgoing flow (neither TA behind the conditional flow nor TD behind the default flow was requested) and emitted no error trace; requests %v", req)
			case req["TA"] > 0 && req["TD"] > 0:
				vl.add("C05/default-and-conditional", "the inclusive fork took the conditional flow and the default flow: requests %v", req)
			case req["TA"] > 1 || req["TD"] > 1 || req["TE"] > 1:
				vl.add("C05/join-released-twice", "requests %v for one fork activation", req)
			case errs == 0 && (req["TE"] != 1 || !complete):
				vl.add("C05/not-complete", "the token behind the fork did not get through the join to the end: requests %v, complete=%v", req, complete)
			}
		}
		o.Viol = vl.v
		o.Tags = c.Prog.Tags
		o.Nontrivial = r.Switches > 0
		probe(o, "condition-variable-written-while-forking", true)
		probe(o, "fork-saw-the-old-value", req["TA"] > 0)
		probe(o, "fork-saw-the-new-value", req["TD"] > 0)
		o.Sample = map[string]any{"program": c.Prog.Desc, "requests": req}
		return o
	}
	tg := CheckTokenGame("C05", c.Prog, c.env.L.E)
	vl.v = append(vl.v, tg.Viol...)
	for _, p := range r.Panics {
		vl.add("C05/panic", "%s", p)
	}
	// one release of the join per fork activation
	rel := 0
	for _, ev := range c.env.L.E {
		if ev.Kind == "t:task" && ev.A == "TA" {
			rel++
		}
	}
	if rel > c.Meta["acts"] {
		vl.add("C05/join-released-twice", "the activity after the inclusive join was requested %d times for %d fork activation(s)", rel, c.Meta["acts"])
	}
	o.Viol = vl.v
	nb := 0
	for k, n := range tg.Requests {
		if strings.HasPrefix(k, "B") {
			nb += n
		}
	}
	o.Nontrivial = r.Switches > 0 && nb >= 2
	probe(o, "branch-ended-before-join", c.Meta["early"] > 0)
	probe(o, "flow-straight-from-fork-to-join", c.Meta["directs"] > 0)
	probe(o, "gateway-that-joins-and-forks-at-once", c.Meta["mixed"] == 1)
	probe(o, "fork-join-re-entered", c.Meta["acts"] > 1)
	probe(o, "unrelated-parallel-activity", c.Meta["siblings"] > 0)
	probe(o, "no-effective-flow", len(tg.M.Errors) > 0)
	probe(o, "three-or-more-branches-active", nb >= 3)
	o.Sample = map[string]any{"program": c.Prog.Desc, "vars": c.Prog.Vars, "buf": c.Buf, "hold": c.Hold, "requests": tg.Requests, "answer_order": answerOrder(c.env)}
	return o
}

func init() {
	Props["C03"] = &Scenario{Gen: genC03, Check: checkC03}
	Props["C04"] = &Scenario{Gen: genC04, Check: checkC04}
	Props["C05"] = &Scenario{Gen: genC05, Check: checkC05}
}

// ---------- C12: embedded sub-process behaves like its content inlined ----------

// TwinCase runs the wrapped program and its inlined twin one after the other in the same simulation.
type TwinCase struct {
	Wrapped *ProcCase `json:"wrapped"`
	Flat    *ProcCase `json:"flat"`
}

func (t *TwinCase) Prepare() error {
	if err := t.Wrapped.Prepare(); err != nil {
		return err
	}
	if t.Flat == nil {
		return nil
	}
	return t.Flat.Prepare()
}
func (t *TwinCase) Env() *Env { return t.Wrapped.env }
func (t *TwinCase) Main() {
	t.Wrapped.Main()
	if t.Flat != nil {
		t.Flat.Main()
	}
}

func (t *TwinCase) SetExplicitDefaults(on bool) {
	t.Wrapped.SetExplicitDefaults(on)
	if t.Flat != nil {
		t.Flat.SetExplicitDefaults(on)
	}
}

func (t *TwinCase) SetDocOrder(flowOrder int, flowsFirst bool) {
	t.Wrapped.SetDocOrder(flowOrder, flowsFirst)
	if t.Flat != nil {
		t.Flat.SetDocOrder(flowOrder, flowsFirst)
	}
}

// genC12Ends: a sub-process whose content forks into branches that end each in its own way - at an end event, silently
// at a task or throw event without outgoing flow, or at a task whose answer carries an error with an exit decision
// (or with retries that run out). The parent's token has to continue past the sub-process exactly once, when the
// last inner token is gone, however it went. No inlined twin here (ends inside the content are where inlining
// legitimately differs): the reference token game alone decides.
func genC12Ends(d *Draw) Case {
	defs := &Definitions{}
	g := &Graph{ID: "P1", Executable: true}
	defs.Procs = []*Graph{g}
	scripts := map[string][]AnswerSpec{}
	mk := func(gg *Graph, id string) *Node {
		return gg.addNode(&Node{ID: id, Kind: "task", Results: []string{"r_" + id}})
	}
	g.addNode(&Node{ID: "Start", Kind: "start"})
	cur := "Start"
	par := d.N(3) == 2
	loop := !par && d.N(3) == 2
	acts := 1
	if par {
		g.addNode(&Node{ID: "PF", Kind: "and"})
		g.connect(defs, cur, "PF", nil, -1)
		cur = "PF"
	}
	if loop {
		acts = 2 + d.N(2)
		g.addNode(&Node{ID: "LM", Kind: "xor"})
		g.connect(defs, cur, "LM", nil, -1)
		cur = "LM"
	}
	// the sub-process, one or two levels
	levels := 1 + d.N(2)
	sg := &Graph{ID: "WG1"}
	g.addNode(&Node{ID: "W1", Kind: "sub", Sub: sg})
	g.connect(defs, cur, "W1", nil, -1)
	inner := sg
	inner.addNode(&Node{ID: "WS1", Kind: "start"})
	if levels == 2 {
		sg2 := &Graph{ID: "WG2"}
		inner.addNode(&Node{ID: "W2", Kind: "sub", Sub: sg2})
		inner.connect(defs, "WS1", "W2", nil, -1)
		pre := "W2"
		if d.Bool() {
			mk(inner, "TO") // work left in the outer sub-process after the inner one
			inner.connect(defs, "W2", "TO", nil, -1)
			pre = "TO"
		}
		inner.addNode(&Node{ID: "WE1", Kind: "end"})
		inner.connect(defs, pre, "WE1", nil, -1)
		inner = sg2
		inner.addNode(&Node{ID: "WS2", Kind: "start"})
	}
	st := inner.Nodes[0].ID
	inner.addNode(&Node{ID: "IF", Kind: "and"})
	inner.connect(defs, st, "IF", nil, -1)
	nb := 2 + d.N(2)
	var ends []string
	nth := 0
	for b := 1; b <= nb; b++ {
		c := "IF"
		for j, nn := 0, d.N(3); j < nn; j++ {
			n := mk(inner, fmt.Sprintf("B%d_%d", b, j+1))
			inner.connect(defs, c, n.ID, nil, -1)
			c = n.ID
		}
		k := d.N(5)
		if k == 4 && acts > 1 {
			k = 3 // (the reference model counts retries per activity, not per token)
		}
		switch k {
		case 0:
			e := inner.addNode(&Node{ID: fmt.Sprintf("IE%d", b), Kind: "end"})
			inner.connect(defs, c, e.ID, nil, -1)
			ends = append(ends, "end event")
		case 1:
			nth++
			n := inner.addNode(&Node{ID: fmt.Sprintf("TH%d", nth), Kind: "throw"})
			inner.connect(defs, c, n.ID, nil, -1)
			ends = append(ends, "throw event without outgoing flow")
		case 2:
			n := mk(inner, fmt.Sprintf("D%d", b))
			inner.connect(defs, c, n.ID, nil, -1)
			ends = append(ends, "task without outgoing flow")
		case 3:
			n := mk(inner, fmt.Sprintf("X%d", b))
			inner.connect(defs, c, n.ID, nil, -1)
			e := inner.addNode(&Node{ID: fmt.Sprintf("IE%d", b), Kind: "end"})
			inner.connect(defs, n.ID, e.ID, nil, -1)
			late := d.N(3) == 2
			for a := 0; a < acts; a++ {
				scripts[n.ID] = append(scripts[n.ID], AnswerSpec{Mode: "exit", LateHandler: late})
			}
			ends = append(ends, "task answered with an error, exit")
		case 4:
			n := mk(inner, fmt.Sprintf("R%d", b))
			inner.connect(defs, c, n.ID, nil, -1)
			e := inner.addNode(&Node{ID: fmt.Sprintf("IE%d", b), Kind: "end"})
			inner.connect(defs, n.ID, e.ID, nil, -1)
			rt := 1 + d.N(2)
			for a := 0; a < acts; a++ {
				for q := 0; q <= rt; q++ {
					scripts[n.ID] = append(scripts[n.ID], AnswerSpec{Mode: "retry", Retries: rt})
				}
			}
			ends = append(ends, fmt.Sprintf("task whose %d retries run out", rt))
		}
	}
	if levels == 1 {
		// (with two levels WE1 closes the outer one)
	}
	cur = "W1"
	if loop {
		tc := g.addNode(&Node{ID: "TC", Kind: "task", Results: []string{"r_TC", "i_TC"}, Counter: "i_TC"})
		g.connect(defs, cur, tc.ID, nil, -1)
		g.addNode(&Node{ID: "LS", Kind: "xor"})
		g.connect(defs, "TC", "LS", nil, -1)
		g.connect(defs, "LS", "LM", &Cond{LtVar: "i_TC", Lt: acts}, -1)
		mk(g, "TP")
		df := g.connect(defs, "LS", "TP", nil, -1)
		g.Node("LS").Default = df.ID
	} else if par {
		mk(g, "TS")
		g.connect(defs, "PF", "TS", nil, -1)
		g.addNode(&Node{ID: "PJ", Kind: "and"})
		g.connect(defs, "W1", "PJ", nil, -1)
		g.connect(defs, "TS", "PJ", nil, -1)
		mk(g, "TP")
		g.connect(defs, "PJ", "TP", nil, -1)
	} else {
		mk(g, "TP")
		g.connect(defs, cur, "TP", nil, -1)
	}
	g.addNode(&Node{ID: "End", Kind: "end"})
	g.connect(defs, "TP", "End", nil, -1)
	g.index()
	prog := &Program{Defs: defs, Vars: map[string]any{}, Wrapped: levels, Tags: []string{"inner-tokens-end-in-their-own-ways"},
		Desc: fmt.Sprintf("sub-process (%d level(s), in parallel branch=%v, activations=%d) whose content forks into branches ending: %v; then TP", levels, par, acts, ends)}
	w := &ProcCase{Prog: prog, Buf: d.N(17), Hold: d.N(3), Picks: drawPicks(d, 48), Scripts: scripts}
	w.Meta = map[string]int{"ends": 1, "par": b2i(par), "acts": acts}
	return &TwinCase{Wrapped: w}
}

func genC12(d *Draw) Case {
	if d.N(5) == 4 {
		return genC12Ends(d)
	}
	opts := ProgOpts{Kinds: []string{"seq", "xor", "and", "or", "loop", "condtask"}, MaxDepth: 1 + d.N(2), MaxTasks: 3 + d.N(5), OrEarlyEnd: false, Wrap: true, Throws: true} // blocks must be single-entry single-exit for the inlined twin to be equivalent
	var kinds []string
	for _, k := range opts.Kinds {
		if d.N(3) != 0 {
			kinds = append(kinds, k)
		}
	}
	opts.Kinds = kinds
	if d.N(4) == 3 {
		opts.SubInLoop = true
	}
	opts.ActivityDefault = d.Bool()
	opts.EmptyBranches = d.Bool()
	// both programs are generated from the same draws
	rec := &simrt.RecTape{}
	*rec = *(d.T.(*simrt.RecTape))
	start := len(rec.Rec)
	prog := GenProgram(d, opts)
	used := d.T.(*simrt.RecTape).Rec[start:]
	fopts := opts
	fopts.Flatten = true
	flat := GenProgram(&Draw{T: simrt.NewReplayTape(append([]int{}, used...))}, fopts)
	buf, hold := d.N(17), d.N(3)
	picks := drawPicks(d, 48)
	w := &ProcCase{Prog: prog, Buf: buf, Hold: hold, Picks: picks}
	f := &ProcCase{Prog: flat, Buf: buf, Hold: hold, Picks: picks}
	return &TwinCase{Wrapped: w, Flat: f}
}

func checkC12(cc Case, r *simrt.Result) *Outcome {
	t := cc.(*TwinCase)
	o := &Outcome{}
	var vl vlist
	genericRunViolations("C12", r, &vl)
	tw := CheckTokenGame("C12", t.Wrapped.Prog, t.Wrapped.env.L.E)
	vl.v = append(vl.v, tw.Viol...)
	if t.Flat == nil {
		for _, p := range r.Panics {
			vl.add("C12/panic", "%s", p)
		}
		o.Viol = vl.v
		o.Tags = t.Wrapped.Prog.Tags
		o.Nontrivial = r.Switches > 0
		probe(o, "inner-tokens-end-in-their-own-ways", true)
		probe(o, "nesting>=2", t.Wrapped.Prog.Wrapped >= 2)
		probe(o, "sub-inside-parallel", t.Wrapped.Meta["par"] == 1)
		probe(o, "sub-with-ending-branches-re-entered", t.Wrapped.Meta["acts"] > 1)
		o.Sample = map[string]any{"program": t.Wrapped.Prog.Desc, "requests": tw.Requests}
		return o
	}
	tf := CheckTokenGame("C12flat", t.Flat.Prog, t.Flat.env.L.E)
	if len(tf.Viol) == 0 && len(tw.Viol) == 0 {
		// differential: same multiset of requests, same completion, same variables
		keys := map[string]bool{}
		for k := range tw.Requests {
			keys[k] = true
		}
		for k := range tf.Requests {
			keys[k] = true
		}
		for k := range keys {
			if tw.Requests[k] != tf.Requests[k] {
				vl.add("C12/differs-from-inlined", "activity %s requested %d time(s) with sub-processes, %d time(s) inlined", k, tw.Requests[k], tf.Requests[k])
			}
		}
		if tw.Complete != tf.Complete {
			vl.add("C12/differs-from-inlined", "completion with sub-processes=%v, inlined=%v", tw.Complete, tf.Complete)
		}
	}
	for _, p := range r.Panics {
		vl.add("C12/panic", "%s", p)
	}
	o.Viol = vl.v
	o.Tags = t.Wrapped.Prog.Tags
	if len(tf.Viol) > 0 {
		// the inlined twin itself misbehaves: not a sub-process matter, the run decides nothing for C12
		o.Viol = nil
		o.Tags = append(o.Tags, "twin-failed")
	}
	o.Nontrivial = r.Switches > 0 && t.Wrapped.Prog.Wrapped > 0
	probe(o, "nesting>=2", t.Wrapped.Prog.Wrapped >= 2)
	probe(o, "sub-inside-parallel", strings.Contains(t.Wrapped.Prog.Desc, "and[") && t.Wrapped.Prog.Wrapped > 0)
	probe(o, "twin-failed", len(tf.Viol) > 0)
	o.Sample = map[string]any{"program": t.Wrapped.Prog.Desc, "inlined": t.Flat.Prog.Desc, "vars": t.Wrapped.Prog.Vars, "requests": tw.Requests}
	return o
}

func init() {
	Props["C12"] = &Scenario{Gen: genC12, Check: checkC12, MaxSteps: 120000}
}
