package zzverif

import (
	"context"
	"encoding/json"
	"fmt"
	"math"
	"os"
	"reflect"
	"sort"
	"strings"
	"time"

	bpmn "github.com/olive-io/bpmn/v2"
	"github.com/olive-io/bpmn/v2/pkg/data"
	"github.com/olive-io/bpmn/v2/pkg/tracing"

	"verif/sim/simrt"
)

// ---------- C16: values survive storage; nothing makes the engine panic; instances are isolated ----------
//
// What the simulator decides: 1..3 instances of one process run at the same time in one simulation, each
// fed its own generated values as instance variables, task results and data outputs by its own client
// goroutine; every value is read back where a user reads it (Locator().CloneVariables(), the properties,
// headers and data objects of the next task's TaskTrace) under a seeded interleaving of all the
// instances' goroutines. Oracles: what instance i reads is the canonical form of what instance i wrote
// (never another instance's value), and no goroutine of the engine panics - a panic in a flow goroutine
// takes the whole process down, whichever instance fed the value. The value generator and the
// canonical-form reference are plain sequential code.

type valSpec struct {
	Kind string `json:"kind"`
	Arg  int    `json:"arg"`
}

type propSpec struct {
	Name string `json:"name"`
	Type string `json:"type"`
	Ref  string `json:"ref,omitempty"`
}

type ValueCase struct {
	Instances int        `json:"instances"`
	Vars      []valSpec  `json:"vars"`    // instance variables v0..
	Results   []valSpec  `json:"results"` // task results r0..
	Objects   []valSpec  `json:"objects"` // data outputs o0..
	Props     []propSpec `json:"props"`   // properties of the reading task
	Headers   []propSpec `json:"headers"`
	Conc      bool       `json:"conc"` // clients run concurrently (else one after the other)
	// a name that already holds a value is written again, usually with a value of another kind: by the client
	// through the locator before T1 is answered ("set"), as a declared result of T1 ("t1") or of T2 ("t2")
	Over []overSpec `json:"over,omitempty"`
	// an exclusive gateway behind T2 whose conditions read a data object that T1 stored ("w0" for even
	// instances, "w1" for odd ones): every instance must be routed by its own data object
	Gate bool `json:"gate,omitempty"`
	// the process declares no data object of its own; the data objects come from ONE WithDataObjects option value
	// that is used for every instance (an options slice an application builds once)
	Shared bool `json:"shared,omitempty"`
	// the two tasks (and the gateway) live inside an embedded sub-process; the data objects are declared by the
	// process around it
	InSub bool `json:"inSub,omitempty"`
	// the initial variables come from two WithVariables options: a map of defaults the application built once and
	// passes to every instance, followed by the instance's own variables (among them one under a name of its own)
	SplitVars bool `json:"splitVars,omitempty"`
	env       *Env
	defs      any
	obs       []map[string]any // per instance: what was read
	errs      []string
}

type overSpec struct {
	Name string  `json:"name"`
	Via  string  `json:"via"`
	Spec valSpec `json:"spec"`
}

// specAt returns what name holds at a stage: 0 = right after the start, 1 = when T2 is requested, 2 = at the end.
func (c *ValueCase) specAt(name string, stage int) (valSpec, bool) {
	var s valSpec
	ok := false
	if name[0] == 'v' {
		if k := int(name[1] - '0'); k < len(c.Vars) {
			s, ok = c.Vars[k], true
		}
	}
	if stage >= 1 {
		if name[0] == 'r' {
			if k := int(name[1] - '0'); k < len(c.Results) {
				s, ok = c.Results[k], true
			}
		}
		for _, via := range []string{"set", "t1"} {
			for _, o := range c.Over {
				if o.Name == name && o.Via == via {
					s, ok = o.Spec, true
				}
			}
		}
	}
	if stage >= 2 {
		for _, o := range c.Over {
			if o.Name == name && o.Via == "t2" {
				s, ok = o.Spec, true
			}
		}
	}
	return s, ok
}

type c16Pair struct {
	A int    `json:"a"`
	B string `json:"b"`
}

type c16Rec struct {
	Name  string         `json:"name"`
	N     int64          `json:"n"`
	F     float64        `json:"f"`
	Tags  []string       `json:"tags"`
	Inner *c16Pair       `json:"inner,omitempty"`
	M     map[string]any `json:"m,omitempty"`
}

var c16Kinds = []string{"int", "int8", "int16", "int32", "int64", "uint", "uint8", "uint16", "uint32", "uint64", "float32", "float64", "string", "bool",
	"slice-int", "slice-any", "array", "map", "struct", "ptr-struct", "ptr-int", "nil", "nil-ptr", "nested",
	"duration", "month", "filemode", "named-string", "named-bool", "ptr-duration"}

// named types with methods of their own: what is stored is the value, not what String() prints
type c16Str string

func (s c16Str) String() string { return "<" + string(s) + ">" }

type c16Bool bool

func (b c16Bool) String() string { return "yes/no" }

// mkValue instantiates a value for instance inst: same kind for every instance, different content.
func mkValue(s valSpec, inst int) any {
	a := s.Arg
	salt := fmt.Sprintf("#%d", inst)
	ints := []int64{0, 1, -1, 42, math.MaxInt64, math.MinInt64, 1 << 53, -(1 << 31)}
	n := ints[a%len(ints)]
	small := int64(a%100) + int64(inst)*1000
	switch s.Kind {
	case "int":
		if a%3 == 0 {
			return int(n)
		}
		return int(small)
	case "int8":
		return int8(a%256 - 128)
	case "int16":
		return int16(a%65536 - 32768)
	case "int32":
		return int32(small)
	case "int64":
		if a%3 == 0 {
			return n
		}
		return small
	case "uint":
		return uint(small)
	case "uint8":
		return uint8(a % 256)
	case "uint16":
		return uint16(a % 65536)
	case "uint32":
		return uint32(small)
	case "uint64":
		if a%3 == 0 {
			return uint64(math.MaxInt64)
		}
		return uint64(small)
	case "float32":
		return float32(a%1000)/7 + float32(inst)
	case "float64":
		fs := []float64{0, 0.1, -2.5, 1e-9, 1e21, math.MaxFloat64, 0.1234567891, 3, 1.0 / 3}
		return fs[a%len(fs)] + float64(inst)*0.5
	case "string":
		ss := []string{"", "plain", "üñí©ødé ✓", "with \"quotes\" and <tags> & more", "line\nbreak\ttab", "true", "12", "{\"not\":\"an object\"}", " spaced "}
		return ss[a%len(ss)] + salt
	case "bool":
		return (a+inst)%2 == 0
	case "slice-int":
		return []int{a, inst, -3}
	case "slice-any":
		return []any{"x" + salt, float64(a), true, nil, []any{1.5, "y"}, map[string]any{"k": salt}}
	case "array":
		return [2]string{"a" + salt, "b"}
	case "map":
		return map[string]any{"who": salt, "n": small, "deep": map[string]any{"list": []any{1, "two", 3.5}, "flag": a%2 == 0}, "s": "v" + salt}
	case "struct":
		return c16Rec{Name: "rec" + salt, N: small, F: 2.5, Tags: []string{"t1", salt}, Inner: &c16Pair{A: a, B: salt}}
	case "ptr-struct":
		return &c16Rec{Name: "ptr" + salt, N: n, Tags: nil, M: map[string]any{"k": []any{salt}}}
	case "ptr-int":
		v := int(small)
		return &v
	case "nil":
		return nil
	case "nil-ptr":
		var p *c16Rec
		return p
	case "duration":
		return time.Duration(small) * time.Second
	case "ptr-duration":
		v := time.Duration(small) * time.Millisecond
		return &v
	case "month":
		return time.Month(1 + (a+inst)%12)
	case "filemode":
		return os.FileMode(0o600 + uint32((a+inst)%64))
	case "named-string":
		return c16Str("named" + salt)
	case "named-bool":
		return c16Bool((a+inst)%2 == 0)
	case "nested":
		var v any = "leaf" + salt
		for i := 0; i < 2+a%5; i++ {
			if i%2 == 0 {
				v = map[string]any{"d": v, "i": i}
			} else {
				v = []any{v, i}
			}
		}
		return v
	}
	return nil
}

// canon is the reference: the canonical form and item type a stored value reads back as
// ("" = no requirement beyond "no panic": nil and nil pointers).
func canon16(v any) (typ string, val any) {
	if v == nil {
		return "", nil
	}
	rv := reflect.ValueOf(v)
	if rv.Kind() == reflect.Pointer {
		if rv.IsNil() {
			return "", nil
		}
		rv = rv.Elem()
	}
	switch rv.Kind() {
	case reflect.Bool:
		return "boolean", rv.Bool()
	case reflect.Int, reflect.Int8, reflect.Int16, reflect.Int32, reflect.Int64:
		return "integer", rv.Int()
	case reflect.Uint, reflect.Uint8, reflect.Uint16, reflect.Uint32, reflect.Uint64:
		return "integer", int64(rv.Uint())
	case reflect.Float32, reflect.Float64:
		return "float", rv.Float()
	case reflect.String:
		return "string", rv.String()
	case reflect.Slice, reflect.Array:
		b, _ := json.Marshal(v)
		var out []any
		_ = json.Unmarshal(b, &out)
		return "array", out
	case reflect.Map, reflect.Struct:
		b, _ := json.Marshal(v)
		out := map[string]any{}
		_ = json.Unmarshal(b, &out)
		return "object", out
	}
	return "", nil
}

func genC16(d *Draw) Case {
	c := &ValueCase{Instances: 1 + d.N(3), Conc: d.N(4) != 0}
	defer func() {
		c.Gate = d.Bool()
		c.Shared = d.N(3) == 2
		c.InSub = d.N(3) == 2
		c.SplitVars = d.N(3) == 2
		if c.Shared {
			// conditions look data objects up by the name the document declares; objects that only the option
			// supplies have none (they are read back through the next task's data input, by id)
			c.Gate = false
		}
	}()
	draw := func(n int) []valSpec {
		var out []valSpec
		for i := 0; i < n; i++ {
			out = append(out, valSpec{Kind: c16Kinds[d.N(len(c16Kinds))], Arg: d.N(1 << 16)})
		}
		return out
	}
	c.Vars = draw(1 + d.N(4))
	c.Results = draw(1 + d.N(4))
	c.Objects = draw(d.N(3))
	types := []string{"string", "integer", "boolean", "float", "object", "array"}
	// properties of the reading task: by name (the variable of that name), by reference into a variable, to
	// paths that exist and that do not; declared types that match the stored value and types that do not
	names := []string{}
	for i := range c.Vars {
		names = append(names, fmt.Sprintf("v%d", i))
	}
	for i := range c.Results {
		names = append(names, fmt.Sprintf("r%d", i))
	}
	// overwriting: half of the runs store a second (third) value under a name that is already taken
	if d.Bool() {
		for i, n := 0, 1+d.N(3); i < n; i++ {
			o := overSpec{Name: names[d.N(len(names))], Via: []string{"set", "t1", "t2"}[d.N(3)], Spec: draw(1)[0]}
			if o.Name[0] == 'r' {
				o.Via = "t2" // a result of T1 can only be replaced by a later task
			}
			dup := false
			for _, p := range c.Over {
				dup = dup || (p.Name == o.Name && p.Via == o.Via)
			}
			if !dup {
				c.Over = append(c.Over, o)
			}
		}
	}
	kindOf := func(name string) string {
		s, _ := c.specAt(name, 1)
		t, _ := canon16(mkValue(s, 0))
		return t
	}
	for _, nme := range names {
		t := kindOf(nme)
		if t == "" || d.N(4) == 3 {
			t = types[d.N(len(types))] // a declaration that need not match what is supplied
		}
		c.Props = append(c.Props, propSpec{Name: nme, Type: t})
	}
	for i, n := 0, d.N(4); i < n; i++ {
		target := names[d.N(len(names))]
		paths := []string{"who", "n", "deep.list.1", "deep.flag", "missing", "deep.missing.more", "0", "name", "tags.1", "inner.b", "",
			// paths that lead nowhere in less ordinary ways: negative, huge and non-numeric indexes, empty segments, a key
			// into an array, an index into an object, a path through a scalar, characters with a meaning in path languages
			"-1", "tags.-1", "deep.list.-1", "tags.99999999999999999999", "tags.1.x", "deep.list.one", "deep..flag", "deep.flag.", ".deep",
			"tags.#", "tags.#.x", "deep.*", "deep.list.@reverse", "inner.b.c.d.e", "deep.list.1e3", "tags.0x1", "tags.+1", "n.0"}
		ref := "$" + target + "." + paths[d.N(len(paths))]
		switch d.N(6) {
		case 0:
			ref = "$nosuchvariable.x"
		case 1:
			ref = "$" + target // no path
		case 2:
			ref = "plain" // not a reference at all
		}
		c.Props = append(c.Props, propSpec{Name: fmt.Sprintf("p%d", i), Type: types[d.N(len(types))], Ref: ref})
		if d.Bool() {
			c.Headers = append(c.Headers, propSpec{Name: fmt.Sprintf("h%d", i), Ref: ref})
		}
	}
	return c
}

func xmlEsc(s string) string {
	r := strings.NewReplacer("&", "&amp;", "<", "&lt;", ">", "&gt;", "\"", "&quot;")
	return r.Replace(s)
}

func (c *ValueCase) xml() string {
	var b strings.Builder
	b.WriteString(`<?xml version="1.0" encoding="UTF-8"?>` + "\n")
	b.WriteString(`<bpmn:definitions xmlns:bpmn="http://www.omg.org/spec/BPMN/20100524/MODEL" xmlns:olive="http://olive.io/spec/BPMN/MODEL" xmlns:xsi="http://www.w3.org/2001/XMLSchema-instance" id="Defs" targetNamespace="http://bpmn.io/schema/bpmn" expressionLanguage="` + exprLang + `">` + "\n")
	b.WriteString("  <bpmn:process id=\"P1\" isExecutable=\"true\">\n")
	var decl strings.Builder // data object declarations: always at the level of the process
	if c.InSub {
		b.WriteString("    <bpmn:startEvent id=\"OS\"><bpmn:outgoing>OF1</bpmn:outgoing></bpmn:startEvent>\n")
		b.WriteString("    <bpmn:endEvent id=\"OE\"><bpmn:incoming>OF2</bpmn:incoming></bpmn:endEvent>\n")
		b.WriteString("    <bpmn:sequenceFlow id=\"OF1\" sourceRef=\"OS\" targetRef=\"S\"/>\n")
		b.WriteString("    <bpmn:sequenceFlow id=\"OF2\" sourceRef=\"S\" targetRef=\"OE\"/>\n")
		b.WriteString("    <bpmn:subProcess id=\"S\"><bpmn:incoming>OF1</bpmn:incoming><bpmn:outgoing>OF2</bpmn:outgoing>\n")
	}
	b.WriteString("    <bpmn:startEvent id=\"Start\"><bpmn:outgoing>F1</bpmn:outgoing></bpmn:startEvent>\n")
	b.WriteString("    <bpmn:serviceTask id=\"T1\">\n      <bpmn:extensionElements>\n        <olive:results>\n")
	for i := range c.Results {
		fmt.Fprintf(&b, "          <olive:field name=\"r%d\" type=\"string\"/>\n", i)
	}
	for _, o := range c.Over {
		if o.Via == "t1" {
			fmt.Fprintf(&b, "          <olive:field name=\"%s\" type=\"string\"/>\n", o.Name)
		}
	}
	b.WriteString("        </olive:results>\n")
	for i := range c.Objects {
		fmt.Fprintf(&b, "        <olive:dataOutput name=\"o%d\" targetRef=\"o%d\"/>\n", i, i)
	}
	if c.Gate {
		b.WriteString("        <olive:dataOutput name=\"who\" targetRef=\"who\"/>\n")
	}
	b.WriteString("      </bpmn:extensionElements>\n      <bpmn:incoming>F1</bpmn:incoming><bpmn:outgoing>F2</bpmn:outgoing>\n    </bpmn:serviceTask>\n")
	b.WriteString("    <bpmn:serviceTask id=\"T2\">\n      <bpmn:extensionElements>\n")
	if len(c.Headers) > 0 {
		b.WriteString("        <olive:taskHeaders>\n")
		for _, h := range c.Headers {
			fmt.Fprintf(&b, "          <olive:header name=\"%s\" value=\"dflt\" type=\"string\" ref=\"%s\"/>\n", h.Name, xmlEsc(h.Ref))
		}
		b.WriteString("        </olive:taskHeaders>\n")
	}
	b.WriteString("        <olive:properties>\n")
	for _, p := range c.Props {
		fmt.Fprintf(&b, "          <olive:property name=\"%s\" value=\"\" type=\"%s\" ref=\"%s\"/>\n", p.Name, p.Type, xmlEsc(p.Ref))
	}
	b.WriteString("        </olive:properties>\n")
	t2res := false
	for _, o := range c.Over {
		if o.Via == "t2" {
			if !t2res {
				b.WriteString("        <olive:results>\n")
				t2res = true
			}
			fmt.Fprintf(&b, "          <olive:field name=\"%s\" type=\"string\"/>\n", o.Name)
		}
	}
	if t2res {
		b.WriteString("        </olive:results>\n")
	}
	for i := range c.Objects {
		fmt.Fprintf(&b, "        <olive:dataInput name=\"in%d\" targetRef=\"o%d\"/>\n", i, i)
	}
	b.WriteString("      </bpmn:extensionElements>\n      <bpmn:incoming>F2</bpmn:incoming><bpmn:outgoing>F3</bpmn:outgoing>\n    </bpmn:serviceTask>\n")
	if c.Gate {
		b.WriteString("    <bpmn:exclusiveGateway id=\"GX\" default=\"FD\"><bpmn:incoming>F3</bpmn:incoming><bpmn:outgoing>FA</bpmn:outgoing><bpmn:outgoing>FB</bpmn:outgoing><bpmn:outgoing>FD</bpmn:outgoing></bpmn:exclusiveGateway>\n")
		for _, x := range []string{"A", "B", "D"} {
			fmt.Fprintf(&b, "    <bpmn:serviceTask id=\"T%s\"><bpmn:incoming>F%s</bpmn:incoming><bpmn:outgoing>G%s</bpmn:outgoing></bpmn:serviceTask>\n", x, x, x)
			fmt.Fprintf(&b, "    <bpmn:endEvent id=\"End%s\"><bpmn:incoming>G%s</bpmn:incoming></bpmn:endEvent>\n", x, x)
			fmt.Fprintf(&b, "    <bpmn:sequenceFlow id=\"G%s\" sourceRef=\"T%s\" targetRef=\"End%s\"/>\n", x, x, x)
		}
		b.WriteString("    <bpmn:sequenceFlow id=\"FA\" sourceRef=\"GX\" targetRef=\"TA\"><bpmn:conditionExpression xsi:type=\"bpmn:tFormalExpression\">getDataObject(&#34;who&#34;) == &#34;w0&#34;</bpmn:conditionExpression></bpmn:sequenceFlow>\n")
		b.WriteString("    <bpmn:sequenceFlow id=\"FB\" sourceRef=\"GX\" targetRef=\"TB\"><bpmn:conditionExpression xsi:type=\"bpmn:tFormalExpression\">getDataObject(&#34;who&#34;) == &#34;w1&#34;</bpmn:conditionExpression></bpmn:sequenceFlow>\n")
		b.WriteString("    <bpmn:sequenceFlow id=\"FD\" sourceRef=\"GX\" targetRef=\"TD\"/>\n")
		if !c.Shared {
			decl.WriteString("    <bpmn:dataObject id=\"who\" name=\"who\"/>\n")
		}
	} else {
		b.WriteString("    <bpmn:endEvent id=\"End\"><bpmn:incoming>F3</bpmn:incoming></bpmn:endEvent>\n")
	}
	for i := range c.Objects {
		if !c.Shared {
			fmt.Fprintf(&decl, "    <bpmn:dataObject id=\"o%d\" name=\"o%d\"/>\n", i, i)
		}
	}
	b.WriteString("    <bpmn:sequenceFlow id=\"F1\" sourceRef=\"Start\" targetRef=\"T1\"/>\n")
	b.WriteString("    <bpmn:sequenceFlow id=\"F2\" sourceRef=\"T1\" targetRef=\"T2\"/>\n")
	if c.Gate {
		b.WriteString("    <bpmn:sequenceFlow id=\"F3\" sourceRef=\"T2\" targetRef=\"GX\"/>\n")
	} else {
		b.WriteString("    <bpmn:sequenceFlow id=\"F3\" sourceRef=\"T2\" targetRef=\"End\"/>\n")
	}
	if c.InSub {
		b.WriteString("    </bpmn:subProcess>\n")
	}
	b.WriteString(decl.String())
	b.WriteString("  </bpmn:process>\n</bpmn:definitions>\n")
	return b.String()
}

func (c *ValueCase) Env() *Env { return c.env }

func (c *ValueCase) Prepare() error {
	c.env = &Env{}
	if _, err := parseDefs(c.xml()); err != nil {
		return err
	}
	c.obs = make([]map[string]any, c.Instances)
	for i := range c.obs {
		c.obs[i] = map[string]any{}
	}
	return nil
}

// scribble changes a value that was read in place (what a careless application does with a decoded document):
// nothing that is stored may change through that.
func scribble(v any) {
	switch t := v.(type) {
	case map[string]any:
		for _, x := range t {
			scribble(x)
		}
		t["zz-scribbled"] = true
	case []any:
		for _, x := range t {
			scribble(x)
		}
		if len(t) > 0 {
			t[0] = "zz-scribbled"
		}
	}
}

func itemOut(it data.IItem) map[string]any {
	if it == nil {
		return map[string]any{"nil": true}
	}
	return map[string]any{"type": string(it.Type()), "value": it.Value()}
}

// Main: one client goroutine per instance.
func (c *ValueCase) Main() {
	L := &c.env.L
	defs, err := parseDefs(c.xml())
	if err != nil {
		L.Add("fatal", err.Error(), "", 0)
		return
	}
	ctx, cancel := context.WithCancel(context.Background())
	defer cancel()
	engine := bpmn.NewEngine(bpmn.WithEngineContext(ctx))
	done := make(chan int, c.Instances)
	var sharedOpts []bpmn.Option
	if c.Shared {
		init := map[string]any{"who": "nobody"}
		for k := range c.Objects {
			init[fmt.Sprintf("o%d", k)] = "initial"
		}
		sharedOpts = []bpmn.Option{bpmn.WithDataObjects(init)}
	}
	defaults := map[string]any{"dflt0": "common", "dflt1": 7}
	client := func(i int) {
		defer func() { done <- i }()
		vars := map[string]any{}
		for k, s := range c.Vars {
			vars[fmt.Sprintf("v%d", k)] = mkValue(s, i)
		}
		opts := append(append([]bpmn.Option{}, sharedOpts...), bpmn.WithContext(ctx))
		if c.SplitVars {
			vars[fmt.Sprintf("own%d", i)] = fmt.Sprintf("mine#%d", i)
			opts = append(opts, bpmn.WithVariables(defaults))
		}
		opts = append(opts, bpmn.WithVariables(vars), bpmn.WithIdGenerator(&ctrGen{prefix: fmt.Sprintf("i%d-", i)}))
		proc, err := engine.NewProcess(defs, opts...)
		if err != nil {
			L.AddG(i, "fatal", "NewProcess: "+err.Error(), "", 0)
			return
		}
		traces := proc.Tracer().SubscribeChannel(make(chan tracing.ITrace, 96)) // (this client starts reading after StartAll has returned: room for everything the start produces)
		if err := proc.StartAll(ctx); err != nil {
			L.AddG(i, "fatal", "StartAll: "+err.Error(), "", 0)
			return
		}
		obs := c.obs[i]
		// what a user sees right after the start
		first := map[string]any{}
		for k, it := range proc.Locator().CloneVariables() {
			first[k] = itemOut(it)
		}
		obs["vars-at-start"] = first
		for _, it := range proc.Locator().CloneVariables() {
			if it != nil {
				scribble(it.Value())
			}
		}
		for tr := range traces {
			u := tracing.Unwrap(tr)
			switch t := u.(type) {
			case bpmn.TaskTrace:
				aid := nodeID(t.GetActivity().Element())
				L.AddG(i, "t:task", aid, "", 0)
				switch aid {
				case "T1":
					res := map[string]any{}
					for k, s := range c.Results {
						res[fmt.Sprintf("r%d", k)] = mkValue(s, i)
					}
					objs := map[string]any{}
					for k, s := range c.Objects {
						objs[fmt.Sprintf("o%d", k)] = mkValue(s, i)
					}
					if c.Gate {
						objs["who"] = fmt.Sprintf("w%d", i%2)
					}
					for _, o := range c.Over {
						switch o.Via {
						case "set":
							proc.Locator().SetVariable(o.Name, mkValue(o.Spec, i))
						case "t1":
							res[o.Name] = mkValue(o.Spec, i)
						}
					}
					env := c.env
					env.fault("answer-with-generated-values")
					t.Do(bpmn.DoWithResults(res), bpmn.DoWithObjects(objs))
				case "T2":
					props := map[string]any{}
					for k, it := range t.GetProperties() {
						props[k] = itemOut(it)
					}
					obs["props"] = props
					dos := map[string]any{}
					for k, it := range t.GetDataObjects() {
						dos[k] = itemOut(it)
					}
					obs["objects"] = dos
					hs := map[string]any{}
					for k, v := range t.GetHeaders() {
						hs[k] = v
					}
					obs["headers"] = hs
					for _, it := range t.GetDataObjects() {
						if it != nil {
							scribble(it.Value())
						}
					}
					for _, it := range t.GetProperties() {
						if it != nil {
							scribble(it.Value())
						}
					}
					for _, it := range proc.Locator().CloneVariables() {
						if it != nil {
							scribble(it.Value())
						}
					}
					res := map[string]any{}
					for _, o := range c.Over {
						if o.Via == "t2" {
							res[o.Name] = mkValue(o.Spec, i)
						}
					}
					t.Do(bpmn.DoWithResults(res))
				case "TA", "TB", "TD":
					if prev, ok := obs["branch"].(string); ok {
						aid = prev + "+" + aid
					}
					obs["branch"] = aid
					t.Do()
				}
			case bpmn.ErrorTrace:
				L.AddG(i, "t:error", fmt.Sprintf("%T", t.Error), fmt.Sprint(t.Error), 0)
			case bpmn.CeaseFlowTrace:
				final := map[string]any{}
				for k, it := range proc.Locator().CloneVariables() {
					final[k] = itemOut(it)
				}
				obs["vars-at-end"] = final
				obs["complete"] = true
				proc.Tracer().Unsubscribe(traces)
				return
			}
		}
	}
	for i := 0; i < c.Instances; i++ {
		i := i
		if c.Conc {
			go client(i)
		} else {
			client(i)
		}
	}
	got := c.Instances
	if !c.Conc {
		got = 0
		for i := 0; i < c.Instances; i++ {
			<-done
		}
	}
	for k := 0; k < got; k++ {
		select {
		case <-done:
		case <-time.After(watchdog):
			L.Add("watchdog", "", "", 0)
			k = got
		}
	}
	if c.SplitVars {
		dk := sortedKeys(defaults)
		L.AddV("defaults-after", strings.Join(dk, ","), map[string]any{"dflt0": defaults["dflt0"], "dflt1": defaults["dflt1"]})
	}
	L.Add("end", "", "", 0)
}

func sameValue(want, got any) bool {
	if reflect.DeepEqual(want, got) {
		return true
	}
	// numeric normalisation (int vs int64 of equal value)
	wv, gv := reflect.ValueOf(want), reflect.ValueOf(got)
	if wv.IsValid() && gv.IsValid() && wv.CanInt() && gv.CanInt() {
		return wv.Int() == gv.Int()
	}
	if wf, ok := want.(float64); ok {
		if gf, ok := got.(float64); ok {
			return wf == gf || (math.IsNaN(wf) && math.IsNaN(gf))
		}
	}
	return false
}

func checkC16(cc Case, r *simrt.Result) *Outcome {
	c := cc.(*ValueCase)
	o := &Outcome{Probes: map[string]int{}}
	var vl vlist
	if len(r.Panics) == 0 {
		genericRunViolations("C16", r, &vl) // (after a panic the instance hangs: that is the same finding)
	}
	for _, p := range r.Panics {
		first := p
		if i := strings.Index(p, "\n"); i > 0 {
			first = p[:i]
		}
		where := ""
		for _, ln := range strings.Split(p, "\n") {
			if strings.Contains(ln, "/schema/") || strings.Contains(ln, "/pkg/data/") || strings.Contains(ln, "plain/activity.go") || strings.Contains(ln, "plain/flow.go") {
				where = strings.TrimSpace(ln)
				break
			}
		}
		vl.add("C16/panic", "%s [%s] (values: vars=%v results=%v objects=%v props=%v)", first, where, c.Vars, c.Results, c.Objects, c.Props)
	}
	for _, ev := range c.env.L.E {
		if ev.Kind == "fatal" {
			vl.add("C16/harness", "%s", ev.A)
		}
	}
	quiesced := !r.StepCap && !r.Horizon
	for _, ev := range c.env.L.E {
		if ev.Kind == "defaults-after" {
			m, _ := ev.V.(map[string]any)
			if ev.A != "dflt0,dflt1" || m["dflt0"] != "common" || m["dflt1"] != 7 {
				vl.add("C16/not-isolated", "the map of defaults the application passed to every instance through WithVariables was changed by creating the instances: it holds %s = %v afterwards, want dflt0,dflt1 = common, 7", ev.A, m)
			}
		}
	}
	for i := 0; i < c.Instances && len(r.Panics) == 0 && quiesced; i++ {
		obs := c.obs[i]
		if obs["complete"] != true {
			vl.add("C16/not-complete", "instance %d did not complete (observed: %v)", i, keysOf(obs))
			continue
		}
		check := func(where, name string, s valSpec, got any) {
			wt, wv := canon16(mkValue(s, i))
			if wt == "" {
				return // nil: nothing required beyond "no panic"
			}
			gm, _ := got.(map[string]any)
			if gm == nil {
				vl.add("C16/value-lost", "instance %d: %s %s (a %s) is not there", i, where, name, s.Kind)
				return
			}
			if gm["type"] != wt {
				vl.add("C16/wrong-type", "instance %d: %s %s was stored as a %s (%#v) and reads back with item type %v, want %s", i, where, name, s.Kind, mkValue(s, i), gm["type"], wt)
				return
			}
			if !sameValue(wv, gm["value"]) {
				// whose value is it?
				for j := 0; j < c.Instances; j++ {
					if _, ov := canon16(mkValue(s, j)); j != i && sameValue(ov, gm["value"]) && !sameValue(ov, wv) && !reflect.ValueOf(ov).IsZero() {
						vl.add("C16/not-isolated", "instance %d: %s %s reads back the value instance %d stored: %#v", i, where, name, j, gm["value"])
						return
					}
				}
				vl.add("C16/value-changed", "instance %d: %s %s was stored as %s %#v and reads back as %#v, want %#v", i, where, name, s.Kind, mkValue(s, i), gm["value"], wv)
			}
		}
		// isolation, also for what is read through references: every generated string carries its instance's
		// mark, so no string instance i reads may carry another instance's
		for _, where := range []string{"props", "headers", "objects", "vars-at-start", "vars-at-end"} {
			for j := 0; j < c.Instances; j++ {
				if j != i {
					if path, found := findMark(obs[where], fmt.Sprintf("#%d", j)); found {
						vl.add("C16/not-isolated", "instance %d reads a value of instance %d in its %s at %s", i, j, where, path)
					}
				}
			}
		}
		if c.Gate {
			want := []string{"TA", "TB"}[i%2]
			if got, _ := obs["branch"].(string); got != want {
				clause := "C16/value-changed"
				if got == []string{"TB", "TA"}[i%2] {
					clause = "C16/not-isolated"
				}
				vl.add(clause, "instance %d stored %q in its data object 'who' and the gateway that reads it sent its token to %q, want %s (instances: %d, concurrent: %v)", i, fmt.Sprintf("w%d", i%2), got, want, c.Instances, c.Conc)
			}
		}
		atStart, _ := obs["vars-at-start"].(map[string]any)
		atEnd, _ := obs["vars-at-end"].(map[string]any)
		props, _ := obs["props"].(map[string]any)
		objs, _ := obs["objects"].(map[string]any)
		if c.SplitVars {
			for n := range atStart {
				if strings.HasPrefix(n, "own") && n != fmt.Sprintf("own%d", i) {
					vl.add("C16/not-isolated", "instance %d starts with variable %s, which only another instance was given", i, n)
				}
			}
			for _, n := range []string{"dflt0", "dflt1", fmt.Sprintf("own%d", i)} {
				if atStart[n] == nil {
					vl.add("C16/value-lost", "instance %d: variable %s, given through one of two WithVariables options, is not there right after the start", i, n)
				}
			}
		}
		for k, s := range c.Vars {
			n := fmt.Sprintf("v%d", k)
			check("variable (right after the start)", n, s, atStart[n])
			se, _ := c.specAt(n, 2)
			check("variable (at the end)", n, se, atEnd[n])
		}
		for k := range c.Results {
			n := fmt.Sprintf("r%d", k)
			se, _ := c.specAt(n, 2)
			check("task result (variable at the end)", n, se, atEnd[n])
		}
		for k, s := range c.Objects {
			check("data object (as the next task's input)", fmt.Sprintf("in%d", k), s, objs[fmt.Sprintf("in%d", k)])
		}
		for _, p := range c.Props {
			if p.Ref != "" {
				continue // references: no panic is all that is required here
			}
			s, _ := c.specAt(p.Name, 1)
			if wt, _ := canon16(mkValue(s, i)); wt == p.Type {
				check("property (declared "+p.Type+") of the next task", p.Name, s, props[p.Name])
			}
		}
	}
	o.Viol = vl.v
	o.Nontrivial = r.Switches > 0
	probe(o, "several-instances-at-once", c.Instances > 1 && c.Conc)
	probe(o, "tasks-inside-a-sub-process-data-objects-declared-outside", c.InSub)
	probe(o, "data-objects-from-one-option-value-shared-by-all-instances", c.Shared && c.Instances > 1)
	probe(o, "gateway-reads-each-instance's-data-object", c.Gate)
	probe(o, "initial-variables-from-two-options-defaults-shared-by-all-instances", c.SplitVars && c.Instances > 1)
	probe(o, "gateway-reads-data-object-several-instances-at-once", c.Gate && c.Instances > 1 && c.Conc)
	for _, ov := range c.Over {
		prev, _ := c.specAt(ov.Name, map[string]int{"set": 0, "t1": 0, "t2": 1}[ov.Via])
		pt, _ := canon16(mkValue(prev, 0))
		nt, _ := canon16(mkValue(ov.Spec, 0))
		probe(o, "name-written-again-with-another-kind", pt != nt)
		probe(o, "name-written-again-with-the-same-kind", pt == nt)
	}
	kinds := map[string]bool{}
	for _, l := range [][]valSpec{c.Vars, c.Results, c.Objects} {
		for _, s := range l {
			kinds[s.Kind] = true
		}
	}
	for k := range kinds {
		o.Probes["kind-"+k]++
	}
	for _, p := range c.Props {
		if p.Ref != "" {
			o.Probes["property-by-reference"]++
			break
		}
	}
	o.Sample = map[string]any{"inSub": c.InSub, "shared": c.Shared, "gate": c.Gate, "over": c.Over, "instances": c.Instances, "conc": c.Conc, "vars": c.Vars, "results": c.Results, "objects": c.Objects, "props": c.Props}
	return o
}

// findMark looks for a string ending in (or containing) mark anywhere inside v.
func findMark(v any, mark string) (string, bool) {
	switch x := v.(type) {
	case string:
		// marks are "#<n>": make sure "#1" does not match "#10"
		for i := strings.Index(x, mark); i >= 0; {
			end := i + len(mark)
			if end == len(x) || x[end] < '0' || x[end] > '9' {
				return "", true
			}
			j := strings.Index(x[end:], mark)
			if j < 0 {
				break
			}
			i = end + j
		}
	case map[string]any:
		keys := make([]string, 0, len(x))
		for k := range x {
			keys = append(keys, k)
		}
		sort.Strings(keys)
		for _, k := range keys {
			if p, ok := findMark(x[k], mark); ok {
				return "." + k + p, true
			}
		}
	case []any:
		for i, e := range x {
			if p, ok := findMark(e, mark); ok {
				return fmt.Sprintf("[%d]%s", i, p), true
			}
		}
	}
	return "", false
}

func keysOf(m map[string]any) []string {
	var out []string
	for k := range m {
		out = append(out, k)
	}
	sort.Strings(out)
	return out
}

func init() {
	Props["C16"] = &Scenario{Gen: genC16, Check: checkC16}
}
