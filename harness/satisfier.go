package zzverif

import (
	"fmt"

	"github.com/olive-io/bpmn/schema"
	"github.com/olive-io/bpmn/v2/pkg/event"
	"github.com/olive-io/bpmn/v2/pkg/logic"
)

// satisfierCrossCheck steps logic.CatchEventSatisfier (and the throw-event counterpart built over the
// same definitions) through the run's event history and compares the number of firings with a plain
// counting model. This part is sequential model-based testing; it rides along for free.
func satisfierCrossCheck(c *ProcCase, cm *Node) string {
	var el *schema.IntermediateCatchEvent
	procs := c.defs.Processes()
	for i := range *procs {
		ces := (*procs)[i].IntermediateCatchEvents()
		for j := range *ces {
			if id, ok := (*ces)[j].Id(); ok && *id == cm.ID {
				el = &(*ces)[j]
			}
		}
	}
	if el == nil {
		return "catch element not found in the parsed definitions"
	}
	sat := logic.NewCatchEventSatisfier(el, event.WrappingDefinitionInstanceBuilder)
	counts := make([]int, len(cm.Events))
	fires := 0
	for k, ep := range c.Events {
		ok, _ := sat.Satisfy(mkEvent(ep.Kind, ep.Ref))
		idx := -1
		for i, d := range cm.Events {
			if d.Kind == ep.Kind && d.Ref == ep.Ref {
				idx = i
				break
			}
		}
		if idx < 0 {
			if ok {
				return fmt.Sprintf("event #%d (%s %s) matches no definition but the satisfier fired (history %v)", k, ep.Kind, ep.Ref, c.Events)
			}
			continue
		}
		counts[idx]++
		if ok {
			fires++
		}
		min, max := counts[0], counts[0]
		for _, n := range counts {
			if n < min {
				min = n
			}
			if n > max {
				max = n
			}
		}
		if !cm.Parallel || len(cm.Events) == 1 {
			if !ok {
				return fmt.Sprintf("event #%d (%s %s) matches a definition of a plain (multiple) catch event but the satisfier did not fire", k, ep.Kind, ep.Ref)
			}
			continue
		}
		if fires > min {
			return fmt.Sprintf("after event #%d the satisfier has fired %d times although the least-matched definition was matched %d times (matches %v, history %v)", k, fires, min, counts, c.Events)
		}
		if min == max && fires != min {
			return fmt.Sprintf("after event #%d every definition has been matched exactly %d times but the satisfier fired %d times (history %v)", k, min, fires, c.Events)
		}
	}
	return throwSatisfierCrossCheck(c, cm)
}

// throwSatisfierCrossCheck: the throw-event counterpart over the same definitions and history. A throw
// event with several definitions always behaves like the parallel-multiple case.
func throwSatisfierCrossCheck(c *ProcCase, cm *Node) string {
	var el *schema.IntermediateThrowEvent
	procs := c.defs.Processes()
	for i := range *procs {
		tes := (*procs)[i].IntermediateThrowEvents()
		for j := range *tes {
			if id, ok := (*tes)[j].Id(); ok && *id == "TH" {
				el = &(*tes)[j]
			}
		}
	}
	if el == nil {
		return ""
	}
	sat := logic.NewThrowEventSatisfier(el, event.WrappingDefinitionInstanceBuilder)
	counts := make([]int, len(cm.Events))
	fires := 0
	for k, ep := range c.Events {
		ok, _ := sat.Satisfy(mkEvent(ep.Kind, ep.Ref))
		idx := -1
		for i, d := range cm.Events {
			if d.Kind == ep.Kind && d.Ref == ep.Ref {
				idx = i
				break
			}
		}
		if idx < 0 {
			if ok {
				return fmt.Sprintf("throw satisfier: event #%d (%s %s) matches no definition but it fired", k, ep.Kind, ep.Ref)
			}
			continue
		}
		counts[idx]++
		if ok {
			fires++
		}
		min, max := counts[0], counts[0]
		for _, n := range counts {
			if n < min {
				min = n
			}
			if n > max {
				max = n
			}
		}
		if fires > min {
			return fmt.Sprintf("throw satisfier: after event #%d it has fired %d times although the least-matched definition was matched %d times (matches %v, history %v)", k, fires, min, counts, c.Events)
		}
		if min == max && fires != min {
			return fmt.Sprintf("throw satisfier: after event #%d every definition has been matched exactly %d times but it fired %d times (history %v)", k, min, fires, c.Events)
		}
	}
	return ""
}
