package zzverif

import (
	"fmt"

	"github.com/olive-io/bpmn/schema"
	"github.com/olive-io/bpmn/v2/pkg/event"
	"github.com/olive-io/bpmn/v2/pkg/logic"
)

// satisfierCrossCheck steps logic.CatchEventSatisfier (and the throw-event counterpart built over the
// same definitions) through the run's event history and compares the number of firings with a plain
// counting model. This part is sequential model-based testing; it rides along for free.
func satisfierCrossCheck(c *ProcCase, cm *Node) string {
	var el *schema.IntermediateCatchEvent
	if found, ok := c.defs.FindBy(schema.ExactId(cm.ID)); ok {
		el, _ = found.(*schema.IntermediateCatchEvent)
	}
	if el == nil {
		return "catch element not found in the parsed definitions"
	}
	sat := logic.NewCatchEventSatisfier(el, event.WrappingDefinitionInstanceBuilder)
	counts := make([]int, len(cm.Events))
	fires := 0
	for k, ep := range c.Events {
		ok, _ := sat.Satisfy(mkEvent(ep.Kind, ep.Ref))
		idx := -1
		for i, d := range cm.Events {
			if d.Kind == ep.Kind && d.Ref == ep.Ref {
				idx = i
				break
			}
		}
		if idx < 0 {
			if ok {
				return fmt.Sprintf("event #%d (%s %s) matches no definition but the satisfier fired (history %v)", k, ep.Kind, ep.Ref, c.Events)
			}
			continue
		}
		counts[idx]++
		if ok {
			fires++
		}
		min, max := counts[0], counts[0]
		for _, n := range counts {
			if n < min {
				min = n
			}
			if n > max {
				max = n
			}
		}
		if !cm.Parallel || len(cm.Events) == 1 {
			if !ok {
				return fmt.Sprintf("event #%d (%s %s) matches a definition of a plain (multiple) catch event but the satisfier did not fire", k, ep.Kind, ep.Ref)
			}
			continue
		}
		if fires > min {
			return fmt.Sprintf("after event #%d the satisfier has fired %d times although the least-matched definition was matched %d times (matches %v, history %v)", k, fires, min, counts, c.Events)
		}
		if min == max && fires != min {
			return fmt.Sprintf("after event #%d every definition has been matched exactly %d times but the satisfier fired %d times (history %v)", k, min, fires, c.Events)
		}
	}
	return throwSatisfierCrossCheck(c, cm)
}

// throwSatisfierCrossCheck: the throw-event counterpart over the same definitions and history. A throw
// event with several definitions always behaves like the parallel-multiple case.
func throwSatisfierCrossCheck(c *ProcCase, cm *Node) string {
	var el *schema.IntermediateThrowEvent
	if found, ok := c.defs.FindBy(schema.ExactId("TH")); ok {
		el, _ = found.(*schema.IntermediateThrowEvent)
	}
	if el == nil {
		return ""
	}
	sat := logic.NewThrowEventSatisfier(el, event.WrappingDefinitionInstanceBuilder)
	counts := make([]int, len(cm.Events))
	fires := 0
	for k, ep := range c.Events {
		ok, _ := sat.Satisfy(mkEvent(ep.Kind, ep.Ref))
		idx := -1
		for i, d := range cm.Events {
			if d.Kind == ep.Kind && d.Ref == ep.Ref {
				idx = i
				break
			}
		}
		if idx < 0 {
			if ok {
				return fmt.Sprintf("throw satisfier: event #%d (%s %s) matches no definition but it fired", k, ep.Kind, ep.Ref)
			}
			continue
		}
		counts[idx]++
		if ok {
			fires++
		}
		min, max := counts[0], counts[0]
		for _, n := range counts {
			if n < min {
				min = n
			}
			if n > max {
				max = n
			}
		}
		if fires > min {
			return fmt.Sprintf("throw satisfier: after event #%d it has fired %d times although the least-matched definition was matched %d times (matches %v, history %v)", k, fires, min, counts, c.Events)
		}
		if min == max && fires != min {
			return fmt.Sprintf("throw satisfier: after event #%d every definition has been matched exactly %d times but it fired %d times (history %v)", k, min, fires, c.Events)
		}
	}
	return ""
}

// enumerateSatisfiers is the exhaustive sequential part of C14: every history of the given length over
// nd definitions plus one non-matching event, for the catch satisfier (plain multiple and
// parallel-multiple) and the throw satisfier, checked against the property's bounds after every prefix.
func enumerateSatisfiers(tier string) *Outcome {
	o := &Outcome{Probes: map[string]int{}}
	var vl vlist
	maxND := 3
	if tier == "thorough" {
		maxND = 4
	}
	length := 9
	allDefs := []EventDef{{Kind: "signal", Ref: "s1"}, {Kind: "message", Ref: "m1"}, {Kind: "signal", Ref: "s2"}, {Kind: "message", Ref: "m2"}}
	total := 0
	for nd := 1; nd <= maxND; nd++ {
		for _, parallel := range []bool{false, true} {
			d := &Definitions{Signals: []string{"s1", "s2", "sX"}, Messages: []string{"m1", "m2"}}
			g := &Graph{ID: "P1", Executable: true}
			d.Procs = []*Graph{g}
			g.addNode(&Node{ID: "Start", Kind: "start"})
			cm := g.addNode(&Node{ID: "CM", Kind: "catch", Parallel: parallel, Events: allDefs[:nd]})
			g.connect(d, "Start", "CM", nil, -1)
			th := g.addNode(&Node{ID: "TH", Kind: "throw", Events: allDefs[:nd]})
			g.connect(d, "CM", "TH", nil, -1)
			g.addNode(&Node{ID: "End", Kind: "end"})
			g.connect(d, "TH", "End", nil, -1)
			_, _ = th, cm
			defs, err := schema.Parse([]byte(d.XML()))
			if err != nil {
				vl.add("C14/harness", "%v", err)
				continue
			}
			ce := &(*(*defs.Processes())[0].IntermediateCatchEvents())[0]
			te := &(*(*defs.Processes())[0].IntermediateThrowEvents())[0]
			alphabet := nd + 1 // index nd = non-matching
			evs := make([]event.IEvent, alphabet)
			for i := 0; i < nd; i++ {
				evs[i] = mkEvent(allDefs[i].Kind, allDefs[i].Ref)
			}
			evs[nd] = mkEvent("signal", "sX")
			seq := make([]int, length)
			n := 1
			for i := 0; i < length; i++ {
				n *= alphabet
			}
			for code := 0; code < n; code++ {
				x := code
				for i := 0; i < length; i++ {
					seq[i] = x % alphabet
					x /= alphabet
				}
				total++
				for which := 0; which < 2; which++ {
					if which == 1 && parallel {
						continue // the throw satisfier has no plain/parallel distinction: enumerate it once
					}
					var satisfy func(event.IEvent) bool
					isParallel := parallel
					if which == 0 {
						sat := logic.NewCatchEventSatisfier(ce, event.WrappingDefinitionInstanceBuilder)
						satisfy = func(e event.IEvent) bool { ok, _ := sat.Satisfy(e); return ok }
					} else {
						sat := logic.NewThrowEventSatisfier(te, event.WrappingDefinitionInstanceBuilder)
						satisfy = func(e event.IEvent) bool { ok, _ := sat.Satisfy(e); return ok }
						isParallel = true
					}
					counts := make([]int, nd)
					fires := 0
					for k, sym := range seq {
						ok := satisfy(evs[sym])
						if sym == nd {
							if ok {
								vl.add("C14/satisfier", "history %v (nd=%d, parallel=%v, %s): non-matching event #%d made it fire", seq, nd, parallel, []string{"catch", "throw"}[which], k)
							}
							continue
						}
						counts[sym]++
						if ok {
							fires++
						}
						if !isParallel || nd == 1 {
							if !ok {
								vl.add("C14/satisfier", "history %v (nd=%d, plain multiple catch): matching event #%d did not fire", seq, nd, k)
							}
							continue
						}
						min, max := counts[0], counts[0]
						for _, c := range counts {
							if c < min {
								min = c
							}
							if c > max {
								max = c
							}
						}
						if fires > min {
							vl.add("C14/satisfier", "history %v (nd=%d, %s): after event #%d fired %d times, least-matched definition matched %d times", seq, nd, []string{"catch", "throw"}[which], k, fires, min)
						}
						if min == max && fires != min {
							vl.add("C14/satisfier", "history %v (nd=%d, %s): after event #%d every definition matched exactly %d times, fired %d times", seq, nd, []string{"catch", "throw"}[which], k, min, fires)
						}
					}
				}
			}
		}
	}
	o.Viol = vl.v
	o.Probes["satisfier-histories-enumerated"] = total
	o.Sample = map[string]any{"exhaustive_sequential_part": fmt.Sprintf("all histories of length %d over 1..%d definitions plus a non-matching event, catch (plain and parallel-multiple) and throw satisfier: %d histories", length, maxND, total)}
	return o
}
