package zzverif

import (
	"bufio"
	"encoding/json"
	"fmt"
	"hash/fnv"
	"os"
	"strconv"
	"testing"
	"testing/synctest"
	"time"

	"verif/sim/simrt"
)

type replayFile struct {
	Property string `json:"property"`
	Clause   string `json:"clause"`
	Detail   string `json:"detail"`
	Seed     uint64 `json:"seed"`
	Index    int    `json:"index"`
	Gen      []int  `json:"gen_tape"`
	Sched    []int  `json:"sched_tape"`
	Case     any    `json:"case,omitempty"`
	History  any    `json:"history,omitempty"`
	SchedLog []string `json:"schedule,omitempty"`
}

type runOut struct {
	Idx        int            `json:"idx"`
	Prop       string         `json:"prop"`
	Viol       []Violation    `json:"viol,omitempty"`
	Steps      int            `json:"steps"`
	Switches   int            `json:"switches"`
	Hash       string         `json:"hash"`
	SimMs      int64          `json:"sim_ms"`
	StepCap    bool           `json:"stepcap,omitempty"`
	Horizon    bool           `json:"horizon,omitempty"`
	Panics     int            `json:"panics,omitempty"`
	Live       int            `json:"live"`
	Races      int            `json:"races,omitempty"`
	Faults     map[string]int `json:"faults,omitempty"`
	Probes     map[string]int `json:"probes,omitempty"`
	Nontrivial bool           `json:"nontrivial"`
	Gen        []int          `json:"gen,omitempty"`
	Sched      []int          `json:"sched,omitempty"`
	Sample     any            `json:"sample,omitempty"`
	Tags       []string       `json:"tags,omitempty"`
	History    any            `json:"history,omitempty"`
	SchedLog   []string       `json:"schedlog,omitempty"`
	LiveG      []simrt.LiveG  `json:"liveg,omitempty"`
	PanicText  []string       `json:"panictext,omitempty"`
	PrepErr    string         `json:"preperr,omitempty"`
}

func envInt(name string, def int) int {
	if v := os.Getenv(name); v != "" {
		n, err := strconv.Atoi(v)
		if err == nil {
			return n
		}
	}
	return def
}

func propHash(p string) uint64 {
	h := fnv.New64a()
	h.Write([]byte(p))
	return h.Sum64()
}

// oneRun executes one simulated run. genT and schedT decide everything.
func oneRun(t *testing.T, prop string, sc *Scenario, genT, schedT *simrt.RecTape, verbose bool) *runOut {
	out := &runOut{Prop: prop}
	gd := &Draw{T: genT}
	c := sc.Gen(gd)
	docVaried, docOrderer := false, false
	if do, ok := c.(interface{ SetDocOrder(int, bool) }); ok {
		// document order variations, drawn behind everything the generator drew: the sequenceFlow elements
		// reversed or shuffled, or in front of the flow nodes (BPMN leaves the order of a process' elements free)
		fo := gd.N(4) - 1
		if fo < 0 {
			fo = 0
		}
		ff := gd.N(4) == 3
		do.SetDocOrder(fo, ff)
		docVaried = fo > 0 || ff
		docOrderer = true
	}
	nodesReversed := false
	if nr, ok := c.(interface{ SetNodesReversed(bool) }); ok {
		nodesReversed = gd.N(3) == 2
		nr.SetNodesReversed(nodesReversed)
	}
	explicitDefaults := false
	if ed, ok := c.(interface{ SetExplicitDefaults(bool) }); ok {
		explicitDefaults = gd.N(4) == 3
		ed.SetExplicitDefaults(explicitDefaults)
	}
	if err := c.Prepare(); err != nil {
		out.PrepErr = err.Error()
		out.Viol = []Violation{{Clause: prop + "/harness-prepare", Detail: err.Error()}}
		return out
	}
	var res *simrt.Result
	races0 := simrt.RaceErrors()
	func() {
		defer func() {
			// leaked goroutines make synctest.Test panic at the end of the bubble; the leak table in
			// res already records them
			recover()
		}()
		synctest.Test(t, func(t *testing.T) {
			maxSteps := sc.MaxSteps
			res = simrt.Run(simrt.Config{Tape: schedT, MaxSteps: maxSteps, Trace: verbose}, c.Main)
		})
	}()
	simrt.Reset()
	if res == nil {
		out.Viol = []Violation{{Clause: prop + "/harness-run", Detail: "simulation did not produce a result"}}
		return out
	}
	o := sc.Check(c, res)
	if docOrderer {
		probe(o, "sequence-flow-elements-reordered-in-the-document", docVaried)
		probe(o, "optional-attributes-spelled-out-with-their-default-values", explicitDefaults)
		probe(o, "flow-nodes-in-reverse-document-order", nodesReversed)
	}
	out.Viol = o.Viol
	out.Steps = res.Steps
	out.Switches = res.Switches
	out.Hash = fmt.Sprintf("%016x", res.Hash)
	out.SimMs = res.SimTime.Milliseconds()
	out.StepCap = res.StepCap
	out.Horizon = res.Horizon
	out.Panics = len(res.Panics)
	live := res.Live()
	out.Live = len(live)
	out.Races = simrt.RaceErrors() - races0
	out.Faults = c.Env().FaultCounts()
	out.Probes = o.Probes
	out.Nontrivial = o.Nontrivial
	out.Sample = o.Sample
	out.Tags = o.Tags
	if verbose || len(out.Viol) > 0 || out.Races > 0 {
		out.Gen = genT.Rec
		out.Sched = schedT.Rec
		out.LiveG = live
		out.PanicText = res.Panics
	}
	if verbose {
		out.History = c.Env().L.E
		out.SchedLog = res.Log
	}
	return out
}

func TestWorker(t *testing.T) {
	prop := os.Getenv("VERIF_PROP")
	if prop == "" {
		t.Skip("VERIF_PROP not set")
	}
	sc := Props[prop]
	if sc == nil {
		t.Fatalf("unknown property %s", prop)
	}
	outPath := os.Getenv("VERIF_OUT")
	f, err := os.Create(outPath)
	if err != nil {
		t.Fatal(err)
	}
	defer f.Close()
	w := bufio.NewWriter(f)
	defer w.Flush()
	enc := json.NewEncoder(w)

	if rp := os.Getenv("VERIF_REPLAY"); rp != "" {
		b, err := os.ReadFile(rp)
		if err != nil {
			t.Fatal(err)
		}
		var rf replayFile
		if err := json.Unmarshal(b, &rf); err != nil {
			t.Fatal(err)
		}
		reps := envInt("VERIF_REPS", 1)
		for i := 0; i < reps; i++ {
			fmt.Fprintf(os.Stderr, "VERIF-RUN %d begin\n", i)
			o := oneRun(t, prop, sc, simrt.NewReplayTape(rf.Gen), simrt.NewReplayTape(rf.Sched), os.Getenv("VERIF_VERBOSE") != "")
			fmt.Fprintf(os.Stderr, "VERIF-RUN %d end\n", i)
			o.Idx = i
			enc.Encode(o)
		}
		return
	}

	if os.Getenv("VERIF_ONCE") != "" || (envInt("VERIF_START", 0) == 0 && sc.Once != nil && os.Getenv("VERIF_REPLAY") == "") {
		if sc.Once != nil {
			o := sc.Once(os.Getenv("VERIF_TIER"))
			rec := &runOut{Idx: -1, Prop: prop, Viol: o.Viol, Probes: o.Probes, Sample: o.Sample, Nontrivial: false, Hash: "once"}
			enc.Encode(rec)
			w.Flush()
		}
		if os.Getenv("VERIF_ONCE") != "" {
			return
		}
	}
	seed := uint64(envInt("VERIF_SEED", 1))
	start := envInt("VERIF_START", 0)
	count := envInt("VERIF_COUNT", 100)
	stride := envInt("VERIF_STRIDE", 1)
	deadline := time.Now().Add(time.Duration(envInt("VERIF_DEADLINE_S", 3600)) * time.Second)
	samples := envInt("VERIF_SAMPLES", 2)
	base := simrt.Mix(seed, propHash(prop))
	for k := 0; k < count; k++ {
		if time.Now().After(deadline) {
			break
		}
		idx := start + k*stride
		genT := simrt.NewRandomTape(simrt.Mix(base, uint64(2*idx)))
		schedT := simrt.NewRandomTape(simrt.Mix(base, uint64(2*idx+1)))
		fmt.Fprintf(os.Stderr, "VERIF-RUN %d begin\n", idx)
		o := oneRun(t, prop, sc, genT, schedT, os.Getenv("VERIF_VERBOSE") != "")
		fmt.Fprintf(os.Stderr, "VERIF-RUN %d end\n", idx)
		o.Idx = idx
		if k >= samples && len(o.Viol) == 0 {
			o.Sample = nil
		}
		if err := enc.Encode(o); err != nil {
			t.Fatal(err)
		}
		if k%50 == 0 {
			w.Flush()
		}
	}
}
