package zzverif

import (
	"context"
	"fmt"
	"sort"
	"strings"
	"time"

	"github.com/olive-io/bpmn/schema"
	bpmn "github.com/olive-io/bpmn/v2"
	"github.com/olive-io/bpmn/v2/pkg/clock"
	"github.com/olive-io/bpmn/v2/pkg/data"
	"github.com/olive-io/bpmn/v2/pkg/event"
	"github.com/olive-io/bpmn/v2/pkg/id"
	"github.com/olive-io/bpmn/v2/pkg/timer"
	"github.com/olive-io/bpmn/v2/pkg/tracing"

	"verif/sim/simlog"
)

// ---- counter id generator behind the repository's own IGenerator seam ----

type ctrID struct{ v string }

func (c ctrID) Bytes() []byte  { return []byte(c.v) }
func (c ctrID) String() string { return c.v }

type ctrGen struct {
	n      simlog.Cell
	prefix string
}

func (g *ctrGen) Snapshot() ([]byte, error) { return []byte(fmt.Sprint(g.n.Get())), nil }
func (g *ctrGen) New() id.Id               { return ctrID{fmt.Sprintf("%s%d", g.prefix, g.n.Add(1))} }

// ---- environment shared by the driver goroutines of one run ----

type Env struct {
	L       simlog.Log
	picks   []int
	pickPos simlog.Cell
	Faults  map[string]int // fired fault counters (written through fault())
	fl      simlog.Log
}

//go:norace
func (e *Env) pick(n int) int {
	if n <= 1 {
		return 0
	}
	p := int(e.pickPos.Get())
	e.pickPos.Set(int64(p + 1))
	if p < len(e.picks) {
		v := e.picks[p] % n
		if v < 0 {
			v = 0
		}
		return v
	}
	return 0
}

// fault counts a fault kind that actually landed on in-flight state.
func (e *Env) fault(kind string) { e.fl.Add("fault", kind, "", 0) }

func (e *Env) FaultCounts() map[string]int {
	out := map[string]int{}
	for _, ev := range e.fl.E {
		out[ev.A]++
	}
	return out
}

func nodeID(n schema.FlowNodeInterface) string {
	if n == nil {
		return "<nil>"
	}
	if p, ok := n.Id(); ok && p != nil {
		return *p
	}
	return "<unnamed>"
}

func elemID(e schema.Element) string {
	if b, ok := e.(schema.BaseElementInterface); ok {
		if p, ok := b.Id(); ok && p != nil {
			return *p
		}
	}
	return fmt.Sprintf("%T", e)
}

// describe flattens a trace into (kind, a, b).
func describe(tr tracing.ITrace) (string, string, string) {
	switch t := tr.(type) {
	case bpmn.VisitTrace:
		return "visit", nodeID(t.Node), ""
	case bpmn.LeaveTrace:
		return "leave", nodeID(t.Node), ""
	case bpmn.FlowTrace:
		var fl []string
		for _, s := range t.Flows {
			fl = append(fl, s.Id().String())
		}
		if len(t.Flows) == 1 {
			if sf := t.Flows[0].SequenceFlow(); sf != nil {
				if p, ok := sf.Id(); ok {
					return "flow", nodeID(t.Source), fl[0] + "@" + *p
				}
			}
		}
		return "flow", nodeID(t.Source), strings.Join(fl, ",")
	case bpmn.NewFlowTrace:
		return "newflow", t.FlowId.String(), ""
	case bpmn.TerminationTrace:
		return "term", nodeID(t.Source), t.FlowId.String()
	case bpmn.CancellationFlowTrace:
		return "cancelflow", nodeID(t.Node), t.FlowId.String()
	case bpmn.CancellationFlowNodeTrace:
		return "cancelnode", nodeID(t.Node), ""
	case bpmn.CompletionTrace:
		return "completion", nodeID(t.Node), ""
	case bpmn.CeaseFlowTrace:
		return "cease", elemID(t.Process), ""
	case bpmn.CeaseProcessSetTrace:
		return "ceaseset", "", ""
	case bpmn.InstantiationTrace:
		return "instantiation", t.InstanceId.String(), ""
	case bpmn.ErrorTrace:
		return "error", fmt.Sprintf("%T", t.Error), fmt.Sprint(t.Error)
	case bpmn.TaskTrace:
		return "task", nodeID(t.GetActivity().Element()), ""
	case bpmn.ActiveBoundaryTrace:
		return "activeboundary", nodeID(t.Node), fmt.Sprint(t.Start)
	case bpmn.ActiveListeningTrace:
		return "listening", nodeID(t.Node), ""
	case bpmn.EventObservedTrace:
		return "eventobserved", nodeID(t.Node), fmt.Sprintf("%T", t.Event)
	case bpmn.DeterminationMadeTrace:
		return "determination", nodeID(t.Node), ""
	case bpmn.ProcessLandMarkTrace:
		return "landmark", nodeID(t.Node), ""
	case bpmn.IncomingFlowProcessedTrace:
		return "incomingprocessed", nodeID(t.Node), t.Flow.Id().String()
	case id.WarningTrace:
		return "warning", fmt.Sprint(t.Warning), ""
	}
	return fmt.Sprintf("other:%T", tr), "", ""
}

// instanceOf returns the instance id a trace is wrapped with ("" if none).
func instanceOf(tr tracing.ITrace) string {
	for {
		switch t := tr.(type) {
		case bpmn.InstanceTrace:
			return t.InstanceId.String()
		case tracing.ITraceW:
			tr = t.Unwrap()
		default:
			return ""
		}
	}
}

// ---- answer plans ----

// AnswerSpec says how one request of one activity is answered.
type AnswerSpec struct {
	Mode     string         `json:"mode,omitempty"`    // "" ok, "err" (no handler), "skip", "exit", "retry", "never"
	Retries  int            `json:"retries,omitempty"` // for retry
	Calls    int            `json:"calls,omitempty"`   // number of Do calls (default 1)
	Conc     bool           `json:"conc,omitempty"`    // Do calls from concurrent goroutines
	MixErr   bool           `json:"mixErr,omitempty"`  // (success answer, several calls) the even-numbered calls carry an error without handler instead
	Results  map[string]any `json:"results,omitempty"` // extra result fields of the first call (call i>1 gets a "#i" suffix on strings)
	Objects  map[string]any `json:"objects,omitempty"` // data outputs
	LateHandler bool        `json:"lateHandler,omitempty"` // the error handler decision is sent only after the engine quiesced
}

type pendingReq struct {
	tt   bpmn.TaskTrace
	act  string
	seq  int // request number of this activity
	step int64
}

// ProcCase is the generic single-process scenario.
type ProcCase struct {
	Prog     *Program `json:"prog"`
	Buf      int      `json:"buf"`
	Picks    []int    `json:"picks"`
	Hold     int      `json:"hold"` // 0: answer at once in arrival order, 1: plan decides per request, 2: always hold until quiescence
	ExtraObs int      `json:"extraObs,omitempty"`
	SlowObsMs int     `json:"slowObsMs,omitempty"` // extra observers let this much simulated time pass per trace (slow consumer: back-pressure on the tracer)
	SlowAll  bool     `json:"slowAll,omitempty"` // ... per trace of any kind (otherwise only per EventObservedTrace)
	Events   []EvPlan `json:"events,omitempty"`
	CancelAt int      `json:"cancelAt,omitempty"` // cancel when this many traces were observed (0 = never)
	NoAnswer map[string]bool `json:"noAnswer,omitempty"`
	Scripts  map[string][]AnswerSpec `json:"scripts,omitempty"` // per activity: how its k-th request is answered
	Shutdown bool     `json:"shutdown,omitempty"` // cancel at the end and observe the shutdown
	StartMode int     `json:"startMode,omitempty"` // 0 StartAll, 1 StartWith one after the other, 2 StartWith from concurrent goroutines, 3 ThrowAll (C07), 4 never started (C07)
	StartOnly []string `json:"startOnly,omitempty"` // with StartMode 1/2: the start events to fire (in this order); empty = all
	Waiters  []WaiterPlan `json:"waiters,omitempty"` // empty = one plain waiter
	AnsDelayMs int    `json:"ansDelayMs,omitempty"` // fake time the answerer lets pass before each answer
	Together []string `json:"together,omitempty"` // these activities are answered at the same moment (each from its own goroutine) once all of them are pending
	Rounds   bool     `json:"rounds,omitempty"` // answer the r-th request of every activity before any (r+1)-th
	LogProps bool     `json:"logProps,omitempty"`
	Stress   *Stress  `json:"stress,omitempty"`  // additional concurrent clients (C17)
	RealIDs  bool     `json:"realIDs,omitempty"` // use the engine's real default id generator (C20)
	Meta     map[string]int `json:"meta,omitempty"`
	Objs     map[string]any `json:"objs,omitempty"` // initial data objects
	MockTimers bool         `json:"mockTimers,omitempty"` // the process gets the timer event-definition builder on a mock clock; "clock" entries of Events advance it

	env  *Env
	defs *schema.Definitions
	Err  string `json:"-"`
}

// WaiterPlan is one client calling WaitUntilComplete.
type WaiterPlan struct {
	TimeoutMs int  `json:"timeoutMs,omitempty"` // first attempt only; 0 = no deadline
	Again     bool `json:"again,omitempty"`     // after an expired wait, wait again without deadline
	DelayMs   int  `json:"delayMs,omitempty"`   // fake time before the first call
	Repeat    int  `json:"repeat,omitempty"`    // additional calls after a successful one
}

// Stress adds client goroutines that use the instance concurrently with the driver proper.
type Stress struct {
	Subs        int  `json:"subs"`        // subscribers that join, read a few traces and leave, again and again
	Readers     int  `json:"readers"`     // goroutines reading variables / data objects on every trace
	ConcAnswers bool `json:"concAnswers"` // every Do call from its own goroutine
	Waiters     int  `json:"waiters"`     // additional WaitUntilComplete callers
}

// EvPlan delivers one event.
type EvPlan struct {
	Kind  string `json:"kind"` // signal / message
	Ref   string `json:"ref"`
	After int    `json:"after"` // deliver after this many traces were observed
	Own   bool   `json:"own"`   // from its own goroutine
	Exact bool   `json:"exact,omitempty"` // (own) the scenario guarantees an order-independent outcome: the model applies it like a quiescent delivery
	ThenAnswer bool `json:"thenAnswer,omitempty"` // (quiescent delivery) the next client action is an answer, issued at once
	First bool   `json:"first,omitempty"` // (quiescent delivery) deliver before any pending request is answered
	Last  bool   `json:"last,omitempty"` // (quiescent delivery) deliver only when no task request is pending
	AfterAnswer string `json:"afterAnswer,omitempty"` // (own) wait until the driver's answer to this activity has returned, then DelayMs of simulated time
	DelayMs   int    `json:"delayMs,omitempty"`
	AfterTask string `json:"afterTask,omitempty"` // (own, prompt) wait until the request of this activity was observed
	WhenListening int `json:"whenListening,omitempty"` // (own) wait until this many ActiveListeningTraces were observed
	Prompt bool `json:"prompt,omitempty"` // (own) deliver the moment the After/WhenListening condition holds (signalled by the observer) instead of at the next quiescent moment: the event races with whatever the engine is doing right then
	Burst  int  `json:"burst,omitempty"`  // (quiescent delivery) deliver this event and the next Burst quiescent ones back to back, without waiting for the engine in between
	BurstConc bool `json:"burstConc,omitempty"` // ... each from its own goroutine
}

const watchdog = 100 * time.Second

func (c *ProcCase) Prepare() error {
	defs, err := parseDefs(c.Prog.Defs.XML())
	if err != nil {
		return fmt.Errorf("schema.Parse: %w", err)
	}
	c.defs = defs
	c.env = &Env{picks: c.Picks}
	return nil
}

func (c *ProcCase) Env() *Env { return c.env }

// SetDocOrder chooses the document order of the sequenceFlow elements (see Definitions.FlowOrder).
func (c *ProcCase) SetDocOrder(flowOrder int, flowsFirst bool) {
	if c.Prog != nil && c.Prog.Defs != nil {
		c.Prog.Defs.FlowOrder, c.Prog.Defs.FlowsFirst = flowOrder, flowsFirst
	}
}

// SetNodesReversed: the flow nodes stand in the document in reverse order (see Definitions.NodesReversed).
func (c *ProcCase) SetNodesReversed(on bool) {
	if c.Prog != nil && c.Prog.Defs != nil {
		c.Prog.Defs.NodesReversed = on
	}
}

// SetExplicitDefaults: optional attributes are written out with their default values (see Definitions.ExplicitDefaults).
func (c *ProcCase) SetExplicitDefaults(on bool) {
	if c.Prog != nil && c.Prog.Defs != nil {
		c.Prog.Defs.ExplicitDefaults = on
	}
}

func mkEvent(kind, ref string) event.IEvent {
	if kind == "message" {
		// "m#op": message m carrying operation op
		if base, op, ok := strings.Cut(ref, "#"); ok {
			return event.NewMessageEvent(base, &op)
		}
		return event.NewMessageEvent(ref, nil)
	}
	switch kind {
	case "escalation":
		ev := event.MakeEscalationEvent(ref)
		return &ev
	case "error":
		ev := event.MakeErrorEvent(ref)
		return &ev
	}
	return event.NewSignalEvent(ref)
}

// Main runs as the simulated main goroutine.
func (c *ProcCase) Main() {
	env := c.env
	L := &env.L
	spyLog = L
	ctx, cancel := context.WithCancel(context.Background())
	defer cancel()
	gen := &ctrGen{prefix: "id"}
	var mock *clock.Mock
	var timerOpts []bpmn.Option
	if c.MockTimers {
		mock = clock.NewMockAt(time.Unix(0, 0))
		ctx = clock.ToContext(ctx, mock)
		fan := event.NewFanOut()
		ttr := tracing.NewTracer(ctx)
		builder := event.DefinitionInstanceBuildingChain(timer.EventDefinitionInstanceBuilder(ctx, fan, ttr), event.WrappingDefinitionInstanceBuilder)
		timerOpts = []bpmn.Option{bpmn.WithTracer(ttr), bpmn.WithProcessEventDefinitionInstanceBuilder(builder), bpmn.WithEventEgress(fan), bpmn.WithEventIngress(fan)}
	}
	engine := bpmn.NewEngine(bpmn.WithEngineContext(ctx))
	opts := []bpmn.Option{bpmn.WithContext(ctx), bpmn.WithVariables(c.Prog.Vars)}
	if !c.RealIDs {
		opts = append(opts, bpmn.WithIdGenerator(gen))
	}
	opts = append(opts, timerOpts...)
	proc, err := engine.NewProcess(c.defs, opts...)
	if err == nil && len(c.Objs) > 0 {
		if loc, ok := proc.Locator().FindIItemAwareLocator(data.LocatorObject); ok {
			for _, k := range sortedKeys(c.Objs) {
				if aware, found := loc.FindItemAwareByName(k); found {
					aware.Put(schema.NewValue(c.Objs[k]))
				} else {
					L.Add("fatal", "data object "+k+" not declared", "", 0)
				}
			}
		} else {
			L.Add("fatal", "no data object locator", "", 0)
		}
	}
	if err != nil {
		c.Err = "NewProcess: " + err.Error()
		L.Add("fatal", c.Err, "", 0)
		return
	}
	traces := proc.Tracer().SubscribeChannel(make(chan tracing.ITrace, c.Buf))
	reqs := make(chan pendingReq, 4096)
	unanswered := make(chan pendingReq, 4096) // requests the plan never answers (C07: they get their answers after the cancel)
	stop := make(chan struct{})
	var ntraces simlog.Cell
	var nlistening simlog.Cell
	tick := make(chan struct{}, 1)
	var idle simlog.Cell // 1 while the answerer has nothing it intends to do
	idle.Set(1)
	cancelled := make(chan struct{})
	var isCancelled simlog.Cell

	// gates of the prompt events: closed by the observer the moment their condition holds
	gates := make([]chan struct{}, len(c.Events))
	gateOpen := make([]bool, len(c.Events))
	taskSeen := map[string]bool{}
	openGates := func(nt, nl int) {
		for i, ep := range c.Events {
			if ep.Own && ep.Prompt && !gateOpen[i] && nt >= ep.After && nl >= ep.WhenListening && (ep.AfterTask == "" || taskSeen[ep.AfterTask]) {
				gateOpen[i] = true
				close(gates[i])
			}
		}
	}
	for i := range gates {
		gates[i] = make(chan struct{})
	}
	openGates(0, 0)
	// gates of the events that wait for an answer of the driver: closed by the answerer (and by nobody else)
	ansGates := map[string]chan struct{}{}
	for _, ep := range c.Events {
		if ep.Own && ep.AfterAnswer != "" && ansGates[ep.AfterAnswer] == nil {
			ansGates[ep.AfterAnswer] = make(chan struct{})
		}
	}
	ansGateClosed := map[string]bool{}

	// observer
	obsDone := make(chan struct{})
	go func() {
		defer close(obsDone)
		seq := map[string]int{}
		for tr := range traces {
			inst := instanceOf(tr)
			_ = inst
			u := tracing.Unwrap(tr)
			k, a, b := describe(u)
			n := int(ntraces.Add(1))
			L.Add("t:"+k, a, b, n)
			if k == "listening" {
				nlistening.Add(1)
			}
			if k == "task" {
				taskSeen[a] = true
			}
			openGates(n, int(nlistening.Get()))
			if c.Stress != nil {
				select {
				case tick <- struct{}{}:
				default:
				}
			}
			if tt, ok := u.(bpmn.TaskTrace); ok {
				seq[a]++
				if tt.Context().Err() != nil {
					L.Add("req-cancelled", a, "", seq[a])
				} else if isCancelled.Get() == 1 {
					L.Add("req-live-after-cancel", a, "", seq[a])
				}
				if c.LogProps {
					pv := map[string]any{}
					for name, it := range tt.GetProperties() {
						if it != nil {
							pv[name] = it.Value()
						} else {
							pv[name] = nil
						}
					}
					L.AddV("props", a, pv)
				}
				reqs <- pendingReq{tt: tt, act: a, seq: seq[a]}
			}
			if c.CancelAt > 0 && n == c.CancelAt {
				L.Add("cancel", "", "", n)
				isCancelled.Set(1)
				cancel()
				close(cancelled)
			}
		}
		L.Add("obs-closed", "", "", 0)
	}()

	// additional observers (same tracer): they only record what they see
	for i := 0; i < c.ExtraObs; i++ {
		obuf := (c.Buf + i) % 5
		if c.SlowObsMs > 0 {
			obuf = 0
		}
		ch := proc.Tracer().SubscribeChannel(make(chan tracing.ITrace, obuf))
		gi := i + 1
		go func() {
			for tr := range ch {
				k, a, b := describe(tracing.Unwrap(tr))
				L.AddG(gi, "o:"+k, a, b, 0)
				if c.SlowObsMs > 0 && (k == "eventobserved" || c.SlowAll) {
					// hold the tracer (and through it the catch event's run loop) up while events keep arriving
					env.fault("slow-subscriber")
					select {
					case <-time.After(time.Duration(c.SlowObsMs) * time.Millisecond):
					case <-stop:
					}
				}
			}
		}()
	}

	if st := c.Stress; st != nil {
		for i := 0; i < st.Subs; i++ {
			i := i
			go func() {
				var own chan tracing.ITrace // every second subscriber keeps one channel and joins with it again and again
				for round := 0; ; round++ {
					ch := make(chan tracing.ITrace, (i+round)%4)
					if i%2 == 1 {
						if own == nil {
							own = ch
						}
						ch = own
						// leftovers of the previous session
						for more := true; more; {
							select {
							case _, ok := <-ch:
								more = ok
							default:
								more = false
							}
						}
					}
					proc.Tracer().SubscribeChannel(ch)
					env.fault("subscriber-joins-and-leaves")
					n := 1 + (i+round)%5
					closed := false
					for k := 0; k < n && !closed; k++ {
						select {
						case _, ok := <-ch:
							closed = !ok
						case <-stop:
							proc.Tracer().Unsubscribe(ch)
							return
						case <-ctx.Done():
							return
						}
					}
					if closed {
						return
					}
					proc.Tracer().Unsubscribe(ch)
				}
			}()
		}
		for i := 0; i < st.Readers; i++ {
			go func() {
				for {
					select {
					case <-tick:
					case <-stop:
						return
					case <-ctx.Done():
						return
					}
					env.fault("concurrent-variable-read")
					for _, it := range proc.Locator().CloneVariables() {
						_ = it.Value()
					}
					_ = proc.Locator().CloneItems(data.LocatorObject)
					_, _ = proc.Locator().GetVariable("r_T1")
					// the other reading calls of the locator an application has
					into := map[string]any{}
					_ = proc.Locator().ApplyTo(&into)
					for _, ln := range []string{data.LocatorObject, data.LocatorHeader, data.LocatorProperty} {
						if l, ok := proc.Locator().FindIItemAwareLocator(ln); ok && l != nil {
							for _, it := range l.Clone() {
								_ = it.Value()
							}
						}
					}
				}
			}()
		}
	}

	// answerer
	ansDone := make(chan struct{})
	go func() {
		defer close(ansDone)
		var pending []pendingReq
		togetherDone, waits := false, 0
		answers := map[string]int{}
		// events delivered by this coordinator, one at a time, only at moments when the engine is quiescent
		var quiet []EvPlan
		for _, ep := range c.Events {
			if !ep.Own {
				quiet = append(quiet, ep)
			}
		}
		skipHold := false
		drain := func() {
			for more := true; more; {
				select {
				case r := <-reqs:
					pending = append(pending, r)
				default:
					more = false
				}
			}
		}
		for {
			drain()
			if len(pending) == 0 && len(quiet) == 0 {
				idle.Set(1)
				select {
				case r := <-reqs:
					idle.Set(0)
					pending = append(pending, r)
				case <-stop:
					return
				}
				drain()
			}
			hold := len(quiet) > 0 || c.Hold == 2 || (c.Hold == 1 && env.pick(2) == 1)
			if skipHold && len(pending) > 0 {
				hold = false
			}
			if hold {
				// a fake-time timer fires only when every goroutine is blocked: the engine has quiesced. With a
				// slow subscriber "blocked" includes its pauses, during which the engine is held up and not at
				// rest: wait longer than a pause, until a whole such period passed without anything being logged
				period := time.Millisecond
				if c.SlowObsMs > 0 {
					period = time.Duration(c.SlowObsMs+1) * time.Millisecond
				}
				for {
					before := L.Len()
					select {
					case <-time.After(period):
					case <-stop:
						return
					}
					if c.SlowObsMs == 0 || L.Len() == before {
						break
					}
				}
				drain()
			}
			if skipHold && len(pending) > 0 {
				skipHold = false
				env.fault("answer-right-after-event")
			} else if len(quiet) > 0 {
				skipHold = false
				// choose between delivering the next event and answering a pending request
				opt := env.pick(len(pending) + 1)
				if quiet[0].Last && len(pending) > 0 {
					opt = 0 // answer first: this event is meant for the listeners the tokens end up at
				}
				if quiet[0].First {
					opt = len(pending)
				}
				if len(pending) == 0 || opt == len(pending) {
					ep := quiet[0]
					quiet = quiet[1:]
					if ep.Kind == "clock" {
						// not an event: the mock clock of the instance's timers moves on
						if mock != nil {
							dur, _ := time.ParseDuration(ep.Ref)
							L.Add("clock-advance", ep.Ref, "", 0)
							env.fault("clock-jump")
							mock.Add(dur)
						}
						continue
					}
					if ep.Burst > 0 && len(quiet) > 0 {
						// a burst: this event and the following ones back to back
						group := []EvPlan{ep}
						for len(group) <= ep.Burst && len(quiet) > 0 {
							group = append(group, quiet[0])
							quiet = quiet[1:]
						}
						env.fault("event-burst")
						for _, x := range group {
							L.Add("ev", x.Kind, x.Ref, 0)
						}
						if ep.BurstConc {
							bd := make(chan struct{}, len(group))
							for _, x := range group {
								x := x
								go func() {
									if _, err := proc.ConsumeEvent(mkEvent(x.Kind, x.Ref)); err != nil {
										L.Add("ev-err", x.Kind, err.Error(), 0)
									}
									bd <- struct{}{}
								}()
							}
							for range group {
								<-bd
							}
						} else {
							for _, x := range group {
								if _, err := proc.ConsumeEvent(mkEvent(x.Kind, x.Ref)); err != nil {
									L.Add("ev-err", x.Kind, err.Error(), 0)
								}
							}
						}
						for _, x := range group {
							L.Add("ev-ret", x.Kind, x.Ref, 0)
						}
						skipHold = group[len(group)-1].ThenAnswer
						continue
					}
					L.Add("ev", ep.Kind, ep.Ref, 0)
					if _, err := proc.ConsumeEvent(mkEvent(ep.Kind, ep.Ref)); err != nil {
						L.Add("ev-err", ep.Kind, err.Error(), 0)
					}
					L.Add("ev-ret", ep.Kind, ep.Ref, 0)
					skipHold = ep.ThenAnswer
					continue
				}
			}
			if len(c.Together) > 0 && !togetherDone {
				// the listed activities are answered at the same moment, each from its own goroutine, once all of them
				// are pending; until then none of them is answered
				var idx []int
				for _, act := range c.Together {
					for k, p := range pending {
						if p.act == act {
							idx = append(idx, k)
							break
						}
					}
				}
				if len(idx) == len(c.Together) {
					togetherDone = true
					env.fault("answers-at-the-same-moment")
					batch := make([]pendingReq, 0, len(idx))
					taken := map[int]bool{}
					for _, k := range idx {
						batch = append(batch, pending[k])
						taken[k] = true
					}
					var rest []pendingReq
					for k, p := range pending {
						if !taken[k] {
							rest = append(rest, p)
						}
					}
					pending = rest
					bd := make(chan struct{}, len(batch))
					for _, r := range batch {
						r := r
						answers[r.act]++
						res := map[string]any{"r_" + r.act: fmt.Sprintf("%s#%d", r.act, answers[r.act])}
						if node, _ := c.Prog.Defs.Procs[0].FindNode(r.act); node != nil {
							if node.Counter != "" {
								res[node.Counter] = answers[r.act]
							}
							for _, k := range sortedKeys(node.Writes) {
								res[k] = node.Writes[k]
							}
						}
						L.AddV("ans", r.act, res)
						go func() {
							r.tt.Do(bpmn.DoWithResults(res))
							L.Add("ans-ret", r.act, "", answers[r.act])
							bd <- struct{}{}
						}()
					}
					for range batch {
						select {
						case <-bd:
						case <-stop:
							return
						}
					}
					continue
				}
				// not all of them are there yet: answer something else, or wait
				var other []int
				for k, p := range pending {
					listed := false
					for _, act := range c.Together {
						listed = listed || p.act == act
					}
					if !listed {
						other = append(other, k)
					}
				}
				if len(other) == 0 {
					waits++
					if waits < 300 {
						select {
						case <-time.After(time.Millisecond):
						case <-stop:
							return
						}
						continue
					}
					togetherDone = true // (they never come together: go on one by one)
				} else {
					pending[0], pending[other[0]] = pending[other[0]], pending[0]
				}
			}
			i := env.pick(len(pending))
			if len(c.Together) > 0 && !togetherDone {
				i = 0
			}
			if c.Rounds {
				minSeq := pending[0].seq
				for _, p := range pending {
					if p.seq < minSeq {
						minSeq = p.seq
					}
				}
				var cand []int
				for k, p := range pending {
					if p.seq == minSeq {
						cand = append(cand, k)
					}
				}
				i = cand[i%len(cand)]
			}
			r := pending[i]
			pending = append(pending[:i], pending[i+1:]...)
			if c.NoAnswer[r.act] {
				L.Add("noanswer", r.act, "", r.seq)
				select {
				case unanswered <- r:
				default:
				}
				continue
			}
			if c.AnsDelayMs > 0 {
				select {
				case <-time.After(time.Duration(c.AnsDelayMs) * time.Millisecond):
				case <-stop:
					return
				}
			}
			answers[r.act]++
			n := answers[r.act]
			spec := AnswerSpec{}
			if sc := c.Scripts[r.act]; r.seq-1 < len(sc) {
				spec = sc[r.seq-1]
			}
			if spec.Mode == "never" {
				L.Add("noanswer", r.act, "", r.seq)
				continue
			}
			res := map[string]any{"r_" + r.act: fmt.Sprintf("%s#%d", r.act, n), "u_" + r.act: "undeclared"}
			if node, _ := c.Prog.Defs.Procs[0].FindNode(r.act); node != nil {
				if node.Counter != "" {
					res[node.Counter] = n
				}
				for _, k := range sortedKeys(node.Writes) {
					res[k] = node.Writes[k]
				}
			}
			for _, k := range sortedKeys(spec.Results) {
				res[k] = spec.Results[k]
			}
			calls := spec.Calls
			if calls < 1 {
				calls = 1
			}
			doOne := func(ci int) {
				var opts []bpmn.DoOption
				mode := spec.Mode
				if mode == "" && spec.MixErr && calls > 1 && ci%2 == 0 {
					mode = "err"
				}
				switch mode {
				case "":
					rr := map[string]any{}
					for k, v := range res {
						rr[k] = v
					}
					// every call carries a distinguishable payload
					rr["r_"+r.act] = fmt.Sprintf("%s#%d.%d", r.act, n, ci)
					if calls == 1 {
						rr["r_"+r.act] = res["r_"+r.act]
					}
					opts = append(opts, bpmn.DoWithResults(rr))
					if len(spec.Objects) > 0 {
						opts = append(opts, bpmn.DoWithObjects(spec.Objects))
					}
					L.AddV("do-call", fmt.Sprintf("%s/%d/%d", r.act, r.seq, ci), rr)
				case "err":
					opts = append(opts, bpmn.DoWithErr(fmt.Errorf("boom %s#%d", r.act, n)))
					L.AddV("do-call", fmt.Sprintf("%s/%d/%d", r.act, r.seq, ci), nil)
				default:
					hch := make(chan bpmn.ErrHandler, 1)
					h := bpmn.ErrHandler{Mode: bpmn.SkipMode}
					if spec.Mode == "exit" {
						h.Mode = bpmn.ExitMode
					} else if spec.Mode == "retry" {
						h.Mode = bpmn.RetryMode
						h.Retries = int32(spec.Retries)
					}
					if spec.LateHandler {
						go func() {
							select {
							case <-time.After(50 * time.Millisecond):
								env.fault("error-handler-decision-late")
								hch <- h
							case <-stop:
							}
						}()
					} else {
						hch <- h
					}
					opts = append(opts, bpmn.DoWithErrHandle(fmt.Errorf("boom %s#%d", r.act, n), hch))
					L.AddV("do-call", fmt.Sprintf("%s/%d/%d", r.act, r.seq, ci), nil)
				}
				r.tt.Do(opts...)
				L.Add("do-ret", fmt.Sprintf("%s/%d/%d", r.act, r.seq, ci), "", 0)
			}
			if spec.Mode == "" {
				logged := map[string]any{}
				for k, v := range res {
					logged[k] = v
				}
				if len(spec.Objects) > 0 {
					logged["__objects"] = spec.Objects
				}
				if spec.MixErr && calls > 1 {
					env.fault("answers-of-different-kinds")
					L.AddV("ans-mix", r.act, logged) // which kind took effect is read off the trace stream
				} else {
					L.AddV("ans", r.act, logged)
				}
			} else {
				L.Add("ans-"+spec.Mode, r.act, "", spec.Retries)
			}
			if calls > 1 {
				env.fault("duplicate-answer")
			}
			if c.Stress != nil && c.Stress.ConcAnswers && calls == 1 {
				env.fault("answer-from-own-goroutine")
				go doOne(1)
			} else if spec.Conc && calls > 1 {
				env.fault("concurrent-answers")
				dd := make(chan struct{}, calls)
				for ci := 1; ci <= calls; ci++ {
					ci := ci
					go func() { doOne(ci); dd <- struct{}{} }()
				}
				// do not wait for them: a Do call that blocks must not stop the answerer
			} else {
				for ci := 1; ci <= calls; ci++ {
					doOne(ci)
				}
			}
			L.Add("ans-ret", r.act, "", n)
			if gch := ansGates[r.act]; gch != nil && !ansGateClosed[r.act] {
				ansGateClosed[r.act] = true
				close(gch)
			}
		}
	}()

	// events delivered from their own goroutines as soon as a given number of traces has been observed
	for ei, ep := range c.Events {
		if !ep.Own {
			continue
		}
		ei, ep := ei, ep
		go func() {
			// (bounded: if the instance comes to rest before that many traces were seen, deliver anyway)
			if ep.Prompt {
				select {
				case <-gates[ei]:
				case <-time.After(400 * time.Millisecond):
				case <-stop:
					return
				}
			}
			if ep.AfterAnswer != "" {
				select {
				case <-ansGates[ep.AfterAnswer]:
				case <-stop:
					return
				}
				if ep.DelayMs > 0 {
					select {
					case <-time.After(time.Duration(ep.DelayMs) * time.Millisecond):
					case <-stop:
						return
					}
				}
			}
			for polls := 0; !ep.Prompt && ep.AfterAnswer == "" && (int(ntraces.Get()) < ep.After || int(nlistening.Get()) < ep.WhenListening) && polls < 400; polls++ {
				select {
				case <-time.After(time.Millisecond):
				case <-stop:
					return
				}
			}
			L.AddG(ei, "rev", ep.Kind, ep.Ref, 0)
			if ep.Exact {
				L.AddG(ei, "ev!", ep.Kind, ep.Ref, 0)
			}
			env.fault("event-from-own-goroutine")
			if _, err := proc.ConsumeEvent(mkEvent(ep.Kind, ep.Ref)); err != nil {
				L.AddG(ei, "ev-err", ep.Kind, err.Error(), 0)
			}
			L.AddG(ei, "rev-ret", ep.Kind, ep.Ref, 0)
		}()
	}

	startIDs := c.StartOnly
	if len(startIDs) == 0 {
		for _, n := range c.Prog.Defs.Procs[0].Nodes {
			if n.Kind == "start" && len(n.Events) == 0 {
				startIDs = append(startIDs, n.ID)
			}
		}
	}
	firstStart := make(chan struct{})
	var firstStartDone simlog.Cell
	markStarted := func() {
		if firstStartDone.Get() == 0 {
			firstStartDone.Set(1)
			close(firstStart)
		}
	}
	startOne := func(id string) {
		var el schema.FlowNodeInterface
		for i := range *proc.Element().StartEvents() {
			se := &(*proc.Element().StartEvents())[i]
			if p, ok := se.Id(); ok && *p == id {
				el = se
			}
		}
		L.Add("startwith", id, "", 0)
		if err := proc.StartWith(ctx, el); err != nil {
			L.Add("fatal", "StartWith: "+err.Error(), "", 0)
		}
		L.Add("startwith-ret", id, "", 0)
		markStarted()
	}
	switch c.StartMode {
	case 0:
		L.Add("startall", "", "", 0)
		if err := proc.StartAll(ctx); err != nil {
			L.Add("fatal", "StartAll: "+err.Error(), "", 0)
		}
		L.Add("startall-ret", "", "", 0)
		markStarted()
	case 1:
		for _, id := range startIDs {
			startOne(id)
		}
	case 2:
		for _, id := range startIDs {
			id := id
			go startOne(id)
		}
	case 3:
		// the instance is set going through its intermediate throw events (Process.ThrowAll), not through a start event
		L.Add("throwall", "", "", 0)
		if err := proc.ThrowAll(ctx); err != nil {
			L.Add("throwall-none", err.Error(), "", 0)
		}
		L.Add("throwall-ret", "", "", 0)
		markStarted()
	case 4:
		// the instance is never started
		L.Add("never-started", "", "", 0)
		markStarted()
	}

	// waiters
	waiters := c.Waiters
	if len(waiters) == 0 {
		waiters = []WaiterPlan{{}}
	}
	if c.Stress != nil {
		for i := 0; i < c.Stress.Waiters; i++ {
			waiters = append(waiters, WaiterPlan{})
		}
	}
	for wi, wp := range waiters {
		wi, wp := wi, wp
		go func() {
			// clients wait only once a start call has returned
			select {
			case <-firstStart:
			case <-ctx.Done():
				return
			}
			if wp.DelayMs > 0 {
				select {
				case <-time.After(time.Duration(wp.DelayMs) * time.Millisecond):
				case <-ctx.Done():
				}
			}
			attempt := 0
			okCount := 0
			for {
				wctx := ctx
				var wcancel context.CancelFunc
				timed := attempt == 0 && wp.TimeoutMs > 0
				if timed {
					wctx, wcancel = context.WithTimeout(ctx, time.Duration(wp.TimeoutMs)*time.Millisecond)
				}
				L.AddG(wi, "wait", "", "", attempt)
				ok := proc.WaitUntilComplete(wctx)
				expired := wctx.Err() != nil
				if wcancel != nil {
					wcancel()
				}
				L.AddG(wi, "complete", fmt.Sprint(ok), fmt.Sprint(expired), attempt)
				attempt++
				if ok {
					okCount++
					if okCount > wp.Repeat {
						return
					}
					continue
				}
				if timed && wp.Again && ctx.Err() == nil {
					env.fault("waiter-expired-then-waits-again")
					continue
				}
				return
			}
		}()
	}

	// terminal quiescence: nothing happened during a whole watchdog period of fake time
	stagnant := 0
	for {
		prev := L.Len()
		<-time.After(watchdog)
		if L.Len() == prev {
			stagnant++
			if idle.Get() == 1 || stagnant >= 3 {
				// (an answerer stuck inside a Do call never becomes idle: do not wait for it forever)
				break
			}
		} else {
			stagnant = 0
		}
	}
	L.Add("quiescent", "", "", 0)
	vars := map[string]any{}
	for k, v := range proc.Locator().CloneVariables() {
		vars[k] = v.Value()
	}
	L.AddV("vars", "", vars)
	if !c.Shutdown {
		L.Add("end", "", "", 0)
		return
	}
	select {
	case <-cancelled:
	default:
		L.Add("cancel", "", "", 0)
		isCancelled.Set(1)
		cancel()
	}
	close(stop)
	<-time.After(watchdog)
	// the requests that were left open get their answers now, after the cancellation, three calls each: every one of
	// them has to return (the first may still be taken, the others find the request closed or its slot occupied)
	late := 0
	for more := true; more; {
		select {
		case r := <-unanswered:
			late++
			r, k := r, late
			go func() {
				for ci := 1; ci <= 3; ci++ {
					L.AddG(900+k, "late-do-call", r.act, "", ci)
					r.tt.Do(bpmn.DoWithResults(map[string]any{"r_" + r.act: "late"}))
					L.AddG(900+k, "late-do-ret", r.act, "", ci)
				}
			}()
		default:
			more = false
		}
	}
	if late > 0 {
		env.fault("answers-after-the-cancel")
		<-time.After(watchdog)
	}
	select {
	case <-proc.Tracer().Done():
		L.Add("tracer-done", "", "", 0)
	default:
		L.Add("tracer-not-done", "", "", 0)
	}
	L.Add("end", "", "", 0)
}

// canon renders a value in a canonical form for comparison between engine and model.
func canon(v any) string {
	switch x := v.(type) {
	case nil:
		return "nil"
	case bool:
		return fmt.Sprintf("b:%v", x)
	case string:
		return "s:" + x
	case int:
		return fmt.Sprintf("n:%d", x)
	case int32:
		return fmt.Sprintf("n:%d", x)
	case int64:
		return fmt.Sprintf("n:%d", x)
	case uint64:
		return fmt.Sprintf("n:%d", x)
	case float64:
		if x == float64(int64(x)) {
			return fmt.Sprintf("n:%d", int64(x))
		}
		return fmt.Sprintf("f:%v", x)
	case map[string]any:
		keys := make([]string, 0, len(x))
		for k := range x {
			keys = append(keys, k)
		}
		sort.Strings(keys)
		var b strings.Builder
		b.WriteString("{")
		for _, k := range keys {
			b.WriteString(k + "=" + canon(x[k]) + ";")
		}
		b.WriteString("}")
		return b.String()
	}
	return fmt.Sprintf("?%T:%v", v, v)
}

func sortedKeys(m map[string]any) []string {
	out := make([]string, 0, len(m))
	for k := range m {
		out = append(out, k)
	}
	sort.Strings(out)
	return out
}
