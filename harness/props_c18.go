package zzverif

import (
	"context"
	"fmt"
	"strings"
	"time"

	"github.com/olive-io/bpmn/schema"
	bpmn "github.com/olive-io/bpmn/v2"
	"github.com/olive-io/bpmn/v2/pkg/tracing"

	"verif/sim/simlog"
	"verif/sim/simrt"
)

// ---------- C18: process set ----------

type SetCase struct {
	Defs     *Definitions `json:"defs"`
	Desc     string       `json:"desc"`
	Waits    int          `json:"waits"`    // WaitUntilComplete calls
	WaitConc bool         `json:"waitConc"` // issued from concurrent goroutines
	Buf      int          `json:"buf"`
	CancelAt int          `json:"cancelAt,omitempty"` // C07: cancel the set's context when this many traces were observed
	Shutdown bool         `json:"shutdown,omitempty"` // C07: cancel at the end (if not before) and observe the shutdown
	Picks    []int        `json:"picks"`
	Hold     int          `json:"hold"`
	Gate     string       `json:"gate,omitempty"` // task that is answered only once every catch event listens
	NCatch   int          `json:"ncatch,omitempty"`
	FirstWaitMs int       `json:"firstWaitMs,omitempty"` // the first WaitUntilComplete call carries a deadline of so many simulated ms (it may expire before the set is complete); the same client then waits again without one
	Together int          `json:"together,omitempty"` // the answerer waits until this many requests are pending and answers them all at the same moment, each from its own goroutine
	Nested   int          `json:"nested,omitempty"` // number of processes whose body lies inside an embedded sub-process
	Tags     []string     `json:"tags,omitempty"`
	Vars     map[string]any `json:"vars,omitempty"`
	env      *Env
	defs     *schema.Definitions
}

func (c *SetCase) Env() *Env { return c.env }
func (c *SetCase) Prepare() error {
	d, err := parseDefs(c.Defs.XML())
	if err != nil {
		return err
	}
	c.defs = d
	c.env = &Env{picks: c.Picks}
	return nil
}

func (c *SetCase) Main() {
	env := c.env
	L := &env.L
	ctx, cancel := context.WithCancel(context.Background())
	defer cancel()
	engine := bpmn.NewEngine(bpmn.WithEngineContext(ctx))
	psOpts := []bpmn.Option{bpmn.WithContext(ctx), bpmn.WithIdGenerator(&ctrGen{prefix: "id"})}
	if len(c.Vars) > 0 {
		psOpts = append(psOpts, bpmn.WithVariables(c.Vars))
	}
	ps, err := engine.NewProcessSet(c.defs, psOpts...)
	if err != nil {
		L.Add("fatal", "NewProcessSet: "+err.Error(), "", 0)
		return
	}
	traces := ps.Tracer().SubscribeChannel(make(chan tracing.ITrace, c.Buf))
	reqs := make(chan pendingReq, 1024)
	stop := make(chan struct{})
	var idle simlog.Cell
	var listening simlog.Cell
	idle.Set(1)
	var isCancelled simlog.Cell
	go func() {
		seq := map[string]int{}
		n := 0
		for tr := range traces {
			u := tracing.Unwrap(tr)
			k, a, b := describe(u)
			n++
			L.Add("t:"+k, a, b, n)
			if k == "listening" {
				listening.Add(1)
			}
			if tt, ok := u.(bpmn.TaskTrace); ok {
				seq[a]++
				if tt.Context().Err() != nil {
					L.Add("req-cancelled", a, "", seq[a])
				} else if isCancelled.Get() == 1 {
					L.Add("req-live-after-cancel", a, "", seq[a])
				}
				reqs <- pendingReq{tt: tt, act: a, seq: seq[a]}
			}
			if c.CancelAt > 0 && n == c.CancelAt {
				L.Add("cancel", "", "", n)
				isCancelled.Set(1)
				cancel()
			}
		}
		L.Add("obs-closed", "", "", 0)
	}()
	go func() {
		var pending []pendingReq
		nAns := map[string]int{}
		polls := 0
		for {
			if len(pending) == 0 {
				idle.Set(1)
				select {
				case r := <-reqs:
					idle.Set(0)
					pending = append(pending, r)
				case <-stop:
					return
				}
			}
			if c.Hold > 0 {
				select {
				case <-time.After(time.Millisecond):
				case <-stop:
					return
				}
			}
			for more := true; more; {
				select {
				case r := <-reqs:
					pending = append(pending, r)
				default:
					more = false
				}
			}
			if c.Together > 0 && len(pending) < c.Together && nAns["*"] == 0 && isCancelled.Get() == 0 {
				// wait for the others (bounded), then answer all of them at once
				polls++
				if polls < 200 {
					select {
					case <-time.After(time.Millisecond):
					case <-stop:
						return
					}
					continue
				}
			}
			if c.Together > 0 && nAns["*"] == 0 && len(pending) >= 2 {
				nAns["*"] = 1
				env.fault("answers-at-the-same-moment")
				batch := pending
				pending = nil
				for _, r := range batch {
					r := r
					nAns[r.act]++
					L.AddV("ans", r.act, map[string]any{})
					go func() {
						r.tt.Do(bpmn.DoWithResults(map[string]any{}))
						L.Add("ans-ret", r.act, "", 0)
					}()
				}
				continue
			}
			// the gate task is held back until every catch event reported that it listens
			var cand []int
			for i, r := range pending {
				if r.act == c.Gate && int(listening.Get()) < c.NCatch && isCancelled.Get() == 0 {
					continue
				}
				cand = append(cand, i)
			}
			if len(cand) == 0 {
				select {
				case <-time.After(time.Millisecond):
				case <-stop:
					return
				}
				continue
			}
			i := cand[env.pick(len(cand))]
			r := pending[i]
			pending = append(pending[:i], pending[i+1:]...)
			res := map[string]any{}
			nAns[r.act]++
			if node := findNodeIn(c.Defs, r.act); node != nil && node.Counter != "" {
				res[node.Counter] = nAns[r.act]
			}
			L.AddV("ans", r.act, res)
			r.tt.Do(bpmn.DoWithResults(res))
			L.Add("ans-ret", r.act, "", 0)
		}
	}()
	L.Add("startall", "", "", 0)
	if err := ps.StartAll(ctx); err != nil {
		L.Add("fatal", "StartAll: "+err.Error(), "", 0)
	}
	L.Add("startall-ret", "", "", 0)
	waiter := func(i int) {
		defer func() {
			if r := recover(); r != nil {
				L.AddG(i, "wait-panic", fmt.Sprint(r), "", 0)
			}
		}()
		if i == 0 && c.FirstWaitMs > 0 {
			// a poll with a deadline first: it may come back false, and must not spoil the waits that follow
			tctx, tcancel := context.WithTimeout(ctx, time.Duration(c.FirstWaitMs)*time.Millisecond)
			env.fault("wait-with-deadline")
			L.AddG(i, "wait", "timed", "", 0)
			ok := ps.WaitUntilComplete(tctx)
			L.AddG(i, "complete", fmt.Sprint(ok), "timed", 0)
			tcancel()
		}
		L.AddG(i, "wait", "", "", 0)
		ok := ps.WaitUntilComplete(ctx)
		L.AddG(i, "complete", fmt.Sprint(ok), "", 0)
	}
	if c.WaitConc {
		for i := 0; i < c.Waits; i++ {
			i := i
			go waiter(i)
		}
	} else {
		go func() {
			for i := 0; i < c.Waits; i++ {
				waiter(i)
			}
		}()
	}
	stagnant := 0
	for {
		prev := L.Len()
		<-time.After(watchdog)
		if L.Len() == prev {
			stagnant++
			if idle.Get() == 1 || stagnant >= 3 {
				break
			}
		} else {
			stagnant = 0
		}
	}
	L.Add("quiescent", "", "", 0)
	if c.Shutdown {
		if isCancelled.Get() == 0 {
			L.Add("cancel", "", "", 0)
			isCancelled.Set(1)
			cancel()
		}
		close(stop)
		<-time.After(watchdog)
		select {
		case <-ps.Tracer().Done():
			L.Add("tracer-done", "", "", 0)
		default:
			L.Add("tracer-not-done", "", "", 0)
		}
		L.Add("end", "", "", 0)
		return
	}
	close(stop)
	L.Add("end", "", "", 0)
}

func genC18(d *Draw) Case {
	defs := &Definitions{}
	c := &SetCase{Defs: defs, Buf: d.N(17), Hold: d.N(2), Waits: 1 + d.N(3)}
	c.WaitConc = c.Waits > 1 && d.Bool()
	nexec := 1 + d.N(3)
	withMsg := d.N(3) == 2
	var desc []string
	mkProc := func(id string, exec bool) *Graph {
		g := &Graph{ID: id, Executable: exec}
		defs.Procs = append(defs.Procs, g)
		return g
	}
	if d.N(6) == 5 {
		// two throw events of one process aimed at one catch event of another, which two tokens reach (behind
		// tasks of their own): whatever the order of throws and arrivals, the catch event continues once per throw
		g := mkProc("P1", true)
		g.addNode(&Node{ID: "P1_Start", Kind: "start"})
		g.addNode(&Node{ID: "P1_T1", Kind: "task"})
		g.connect(defs, "P1_Start", "P1_T1", nil, -1)
		g.addNode(&Node{ID: "TH1", Kind: "throw", Events: []EventDef{{Kind: "signal", Ref: "sC"}}})
		g.connect(defs, "P1_T1", "TH1", nil, -1)
		cur := "TH1"
		if d.Bool() {
			g.addNode(&Node{ID: "P1_T2", Kind: "task"})
			g.connect(defs, cur, "P1_T2", nil, -1)
			cur = "P1_T2"
		}
		g.addNode(&Node{ID: "TH2", Kind: "throw", Events: []EventDef{{Kind: "signal", Ref: "sC"}}})
		g.connect(defs, cur, "TH2", nil, -1)
		g.addNode(&Node{ID: "P1_End", Kind: "end"})
		g.connect(defs, "TH2", "P1_End", nil, -1)
		p2 := mkProc("P2", true)
		p2.addNode(&Node{ID: "P2_Start", Kind: "start"})
		p2.addNode(&Node{ID: "P2_F", Kind: "and"})
		p2.connect(defs, "P2_Start", "P2_F", nil, -1)
		p2.addNode(&Node{ID: "P2_C", Kind: "catch", Relaxed: true, Events: []EventDef{{Kind: "signal", Ref: "sC"}}})
		for i := 1; i <= 2; i++ {
			gt := fmt.Sprintf("P2_G%d", i)
			p2.addNode(&Node{ID: gt, Kind: "task"})
			p2.connect(defs, "P2_F", gt, nil, -1)
			p2.connect(defs, gt, "P2_C", nil, -1)
		}
		p2.addNode(&Node{ID: "P2_T", Kind: "task"})
		p2.connect(defs, "P2_C", "P2_T", nil, -1)
		p2.addNode(&Node{ID: "P2_End", Kind: "end"})
		p2.connect(defs, "P2_T", "P2_End", nil, -1)
		defs.MsgFlows = append(defs.MsgFlows, [2]string{"TH1", "P2_C"}, [2]string{"TH2", "P2_C"})
		defs.Signals = []string{"sC"}
		desc = append(desc, "P1(T1 -> throw TH1 -> [T2] -> throw TH2), both => catch P2_C, which two tokens of P2 reach behind tasks G1, G2")
		c.Tags = append(c.Tags, "message-flow", "two-throws-one-catch")
		c.Hold = 1
	} else if d.N(5) == 4 {
		// the throw races the catch event's first listening: P1's task in front of the throw event and P2's task in
		// front of the catch event are answered at the same moment, and a few throw events without message flow on
		// either path skew the two chains against each other. Whichever comes first, the catch event is woken once.
		g := mkProc("P1", true)
		g.addNode(&Node{ID: "P1_Start", Kind: "start"})
		g.addNode(&Node{ID: "P1_T1", Kind: "task"})
		g.connect(defs, "P1_Start", "P1_T1", nil, -1)
		cur := "P1_T1"
		for i, n := 0, d.N(3); i < n; i++ {
			id := fmt.Sprintf("P1_K%d", i+1)
			g.addNode(&Node{ID: id, Kind: "throw"})
			g.connect(defs, cur, id, nil, -1)
			cur = id
		}
		g.addNode(&Node{ID: "TH1", Kind: "throw", Events: []EventDef{{Kind: "signal", Ref: "sC"}}})
		g.connect(defs, cur, "TH1", nil, -1)
		g.addNode(&Node{ID: "P1_End", Kind: "end"})
		g.connect(defs, "TH1", "P1_End", nil, -1)
		p2 := mkProc("P2", true)
		p2.addNode(&Node{ID: "P2_Start", Kind: "start"})
		p2.addNode(&Node{ID: "P2_G", Kind: "task"})
		p2.connect(defs, "P2_Start", "P2_G", nil, -1)
		cur = "P2_G"
		for i, n := 0, d.N(3); i < n; i++ {
			id := fmt.Sprintf("P2_K%d", i+1)
			p2.addNode(&Node{ID: id, Kind: "throw"})
			p2.connect(defs, cur, id, nil, -1)
			cur = id
		}
		p2.addNode(&Node{ID: "P2_C", Kind: "catch", Relaxed: true, Events: []EventDef{{Kind: "signal", Ref: "sC"}}})
		p2.connect(defs, cur, "P2_C", nil, -1)
		p2.addNode(&Node{ID: "P2_T", Kind: "task"})
		p2.connect(defs, "P2_C", "P2_T", nil, -1)
		p2.addNode(&Node{ID: "P2_End", Kind: "end"})
		p2.connect(defs, "P2_T", "P2_End", nil, -1)
		defs.MsgFlows = append(defs.MsgFlows, [2]string{"TH1", "P2_C"})
		defs.Signals = []string{"sC"}
		desc = append(desc, "P1(T1 -> throw TH1) => catch P2_C behind task G; T1 and G answered at the same moment")
		c.Tags = append(c.Tags, "message-flow", "throw-races-listening")
		c.Together = 2
		c.Hold = 0
	} else if d.N(4) == 3 {
		// burst: one executable process forks into k throw events, each instantiating its own waiting process
		k := 2 + d.N(6)
		g := mkProc("P1", true)
		g.addNode(&Node{ID: "P1_Start", Kind: "start"})
		g.addNode(&Node{ID: "P1_T1", Kind: "task"})
		g.connect(defs, "P1_Start", "P1_T1", nil, -1)
		g.addNode(&Node{ID: "P1_F", Kind: "and"})
		g.connect(defs, "P1_T1", "P1_F", nil, -1)
		g.addNode(&Node{ID: "P1_J", Kind: "and"})
		for i := 1; i <= k; i++ {
			th := fmt.Sprintf("TH%d", i)
			g.addNode(&Node{ID: th, Kind: "throw", Events: []EventDef{{Kind: "message", Ref: fmt.Sprintf("m%d", i)}}})
			g.connect(defs, "P1_F", th, nil, -1)
			g.connect(defs, th, "P1_J", nil, -1)
			defs.Messages = append(defs.Messages, fmt.Sprintf("m%d", i))
		}
		g.addNode(&Node{ID: "P1_T2", Kind: "task"})
		g.connect(defs, "P1_J", "P1_T2", nil, -1)
		g.addNode(&Node{ID: "P1_End", Kind: "end"})
		g.connect(defs, "P1_T2", "P1_End", nil, -1)
		for i := 1; i <= k; i++ {
			w := mkProc(fmt.Sprintf("W%d", i), false)
			ws, wt, we := fmt.Sprintf("W%d_Start", i), fmt.Sprintf("W%d_T", i), fmt.Sprintf("W%d_End", i)
			w.addNode(&Node{ID: ws, Kind: "start"})
			w.addNode(&Node{ID: wt, Kind: "task"})
			w.connect(defs, ws, wt, nil, -1)
			w.addNode(&Node{ID: we, Kind: "end"})
			w.connect(defs, wt, we, nil, -1)
			defs.MsgFlows = append(defs.MsgFlows, [2]string{fmt.Sprintf("TH%d", i), ws})
		}
		desc = append(desc, fmt.Sprintf("P1 forks into %d throws, each instantiating its own waiting process", k))
		c.Tags = append(c.Tags, "message-flow", "throw-burst")
	} else if !withMsg {
		for p := 1; p <= nexec; p++ {
			if d.N(3) == 2 {
				// a block-structured body (gateways, loops) instead of a plain chain
				g := mkProc(fmt.Sprintf("P%d", p), true)
				vars, bd := GenBody(d, defs, g, ProgOpts{Kinds: []string{"seq", "xor", "and", "loop"}, MaxDepth: 1 + d.N(2), MaxTasks: 2 + d.N(4)}, fmt.Sprintf("P%d", p))
				if c.Vars == nil {
					c.Vars = map[string]any{}
				}
				for k, v := range vars {
					c.Vars[k] = v
				}
				desc = append(desc, fmt.Sprintf("P%d(%s)", p, bd))
				continue
			}
			g := mkProc(fmt.Sprintf("P%d", p), true)
			g.addNode(&Node{ID: fmt.Sprintf("P%d_Start", p), Kind: "start"})
			cur := fmt.Sprintf("P%d_Start", p)
			nt := d.N(3) // 0 tasks = a process that finishes at once
			for k := 1; k <= nt; k++ {
				id := fmt.Sprintf("P%d_T%d", p, k)
				g.addNode(&Node{ID: id, Kind: "task"})
				g.connect(defs, cur, id, nil, -1)
				cur = id
			}
			e := fmt.Sprintf("P%d_End", p)
			g.addNode(&Node{ID: e, Kind: "end"})
			g.connect(defs, cur, e, nil, -1)
			desc = append(desc, fmt.Sprintf("P%d(%d tasks)", p, nt))
		}
	} else {
		// P1: Start -> T1 (gate) -> TH1 [-> TH2] -> T2 -> End ; W1 waiting, instantiated by TH1 ; P2 with a catch event woken by TH2
		g := mkProc("P1", true)
		g.addNode(&Node{ID: "P1_Start", Kind: "start"})
		g.addNode(&Node{ID: "P1_T1", Kind: "task"})
		g.connect(defs, "P1_Start", "P1_T1", nil, -1)
		g.addNode(&Node{ID: "TH1", Kind: "throw", Events: []EventDef{{Kind: "message", Ref: "mW"}}})
		g.connect(defs, "P1_T1", "TH1", nil, -1)
		cur := "TH1"
		two := d.Bool()
		if two {
			g.addNode(&Node{ID: "TH2", Kind: "throw", Events: []EventDef{{Kind: "signal", Ref: "sC"}}})
			g.connect(defs, cur, "TH2", nil, -1)
			cur = "TH2"
		}
		g.addNode(&Node{ID: "P1_T2", Kind: "task"})
		g.connect(defs, cur, "P1_T2", nil, -1)
		g.addNode(&Node{ID: "P1_End", Kind: "end"})
		g.connect(defs, "P1_T2", "P1_End", nil, -1)
		w := mkProc("W1", false)
		w.addNode(&Node{ID: "W1_Start", Kind: "start"})
		w.addNode(&Node{ID: "W1_T", Kind: "task"})
		w.connect(defs, "W1_Start", "W1_T", nil, -1)
		w.addNode(&Node{ID: "W1_End", Kind: "end"})
		w.connect(defs, "W1_T", "W1_End", nil, -1)
		defs.MsgFlows = append(defs.MsgFlows, [2]string{"TH1", "W1_Start"})
		defs.Messages = []string{"mW"}
		defs.Signals = []string{"sC"}
		desc = append(desc, "P1(T1 -> throw TH1 => W1)")
		if two {
			p2 := mkProc("P2", true)
			p2.addNode(&Node{ID: "P2_Start", Kind: "start"})
			p2.addNode(&Node{ID: "P2_C", Kind: "catch", Relaxed: true, Events: []EventDef{{Kind: "signal", Ref: "sC"}}})
			p2.connect(defs, "P2_Start", "P2_C", nil, -1)
			p2.addNode(&Node{ID: "P2_T", Kind: "task"})
			p2.connect(defs, "P2_C", "P2_T", nil, -1)
			p2.addNode(&Node{ID: "P2_End", Kind: "end"})
			p2.connect(defs, "P2_T", "P2_End", nil, -1)
			defs.MsgFlows = append(defs.MsgFlows, [2]string{"TH2", "P2_C"})
			c.Gate = "P1_T1"
			c.NCatch = 1
			desc = append(desc, "TH2 => catch P2_C")
		}
		c.Tags = append(c.Tags, "message-flow")
	}
	for _, g := range defs.Procs {
		g.index()
	}
	c.Desc = strings.Join(desc, "; ") + fmt.Sprintf("; waits=%d conc=%v", c.Waits, c.WaitConc)
	c.Picks = drawPicks(d, 24)
	if d.N(4) == 3 {
		c.FirstWaitMs = 1 + d.N(3)
		c.Desc += fmt.Sprintf("; first wait with a deadline of %d ms", c.FirstWaitMs)
	}
	if d.N(4) == 3 {
		// the bodies of the processes (throw events, catch events that message flows aim at, activities) lie
		// inside an embedded sub-process; start events that a message flow instantiates stay where they are
		target := map[string]bool{}
		for _, mf := range defs.MsgFlows {
			target[mf[1]] = true
		}
		n := 0
		for _, g := range defs.Procs {
			if target[g.ID+"_Start"] {
				continue
			}
			if nestBodyBetween(defs, g, g.ID+"_Start", g.ID+"_End", 1+d.N(2)) {
				n++
			}
		}
		if n > 0 {
			c.Tags = append(c.Tags, "bodies-in-subprocess")
			c.Desc += fmt.Sprintf("; %d process bodies nested in sub-processes", n)
			c.Nested = n
		}
	}
	return c
}

func checkC18(cc Case, r *simrt.Result) *Outcome {
	c := cc.(*SetCase)
	o := &Outcome{}
	var vl vlist
	genericRunViolations("C18", r, &vl)
	for _, p := range r.Panics {
		vl.add("C18/panic", "%s", p)
	}
	// one model per process instance
	models := map[string]*Model{}
	procOf := func(node string) string {
		for _, g := range c.Defs.Procs {
			if n, _ := g.FindNode(node); n != nil {
				return g.ID
			}
		}
		return ""
	}
	graph := func(id string) *Graph {
		for _, g := range c.Defs.Procs {
			if g.ID == id {
				return g
			}
		}
		return nil
	}
	thrown := map[string]int{}
	handled := map[string]int{}
	afterStep := func() {
		// message flows: a throw event that a token passed instantiates / wakes its target once
		for _, m := range models {
			for id, n := range m.Throws {
				thrown[id] = n
			}
		}
		for _, mf := range c.Defs.MsgFlows {
			for handled[mf[0]] < thrown[mf[0]] {
				handled[mf[0]]++
				tp := procOf(mf[1])
				g := graph(tp)
				tn, _ := g.FindNode(mf[1])
				if tn.Kind == "start" {
					key := fmt.Sprintf("%s#%d", tp, handled[mf[0]])
					m := NewModel(g, nil)
					m.StartAt(mf[1])
					models[key] = m
				}
				// (catch targets are Relaxed: the model follows the engine's LeaveTrace and bounds it below)
			}
		}
	}
	quiesced := false
	completes, waits := 0, 0
	sawCancel := false
	ceaseSet := 0
	catchLeaves := map[string]int{}
	catchVisits := map[string]int{}
	waitPanics := 0
	findModel := func(node string, want func(m *Model) bool) *Model {
		p := procOf(node)
		for k, m := range models {
			if (k == p || strings.HasPrefix(k, p+"#")) && want(m) {
				return m
			}
		}
		return nil
	}
	for _, ev := range c.env.L.E {
		switch ev.Kind {
		case "startall":
			for _, g := range c.Defs.Procs {
				if g.Executable {
					m := NewModel(g, c.Vars)
					m.StartAll()
					models[g.ID] = m
				}
			}
			afterStep()
		case "t:task":
			m := findModel(ev.A, func(m *Model) bool { return contains(m.Pending(), ev.A) })
			if m == nil {
				vl.add("C18/request-not-enabled", "step %d: activity %s requested but no instance of its process has an unrequested token there", ev.Step, ev.A)
			} else {
				m.Request(ev.A)
			}
		case "ans":
			m := findModel(ev.A, func(m *Model) bool { return contains(m.Waiting(), ev.A) })
			if m != nil {
				res, _ := ev.V.(map[string]any)
				m.Answer(ev.A, res, nil)
				afterStep()
			}
		case "t:visit":
			if n := findNodeIn(c.Defs, ev.A); n != nil && n.Kind == "catch" {
				catchVisits[ev.A]++
			}
		case "t:leave":
			if n := findNodeIn(c.Defs, ev.A); n != nil && n.Kind == "catch" {
				catchLeaves[ev.A]++
				if m := findModel(ev.A, func(m *Model) bool { return contains(m.Listening(), ev.A) }); m != nil {
					m.ReleaseCatch(ev.A)
					afterStep()
				} else {
					vl.add("C18/catch-left-without-token", "step %d: catch event %s continued although no token waits there", ev.Step, ev.A)
				}
			}
		case "wait":
			waits++
		case "cancel":
			sawCancel = true
		case "complete":
			if ev.A == "false" && ev.B != "timed" && !sawCancel && !quiesced {
				vl.add("C18/waiter-false", "step %d: ProcessSet.WaitUntilComplete returned false although its context was neither cancelled nor expired (an earlier call of another or the same client had a deadline that expired)", ev.Step)
			}
			if !quiesced {
				completes++
				if ev.A == "true" {
					for k, m := range models {
						if m.Live() > 0 {
							vl.add("C18/complete-early", "step %d: ProcessSet.WaitUntilComplete returned true while process instance %s still holds %d token(s) (pending %v, waiting %v)", ev.Step, k, m.Live(), m.Pending(), m.Waiting())
						}
					}
				}
			}
		case "wait-panic":
			waitPanics++
			vl.add("C18/wait-panics", "ProcessSet.WaitUntilComplete call #%d panicked: %s", ev.G, ev.A)
		case "t:ceaseset":
			if !quiesced {
				ceaseSet++
			}
		case "quiescent":
			quiesced = true
		case "fatal":
			vl.add("C18/harness", "%s", ev.A)
		}
	}
	if quiesced && len(vl.v) == 0 {
		allDone := true
		for k, m := range models {
			if p := m.Pending(); len(p) > 0 {
				vl.add("C18/skipped", "process instance %s: enabled activities never requested: %v", k, p)
			}
			if m.Live() > 0 {
				allDone = false
			}
		}
		// every throw instantiated its waiting target exactly once (the models were created per throw; a
		// missing instantiation shows as skipped activities, an extra one as request-not-enabled)
		// a catch event continues once per throw aimed at it, as far as tokens have arrived there to be woken
		// (a throw that comes before its catch event listens is remembered)
		aimed := map[string]int{}
		var catches []string
		for _, mf := range c.Defs.MsgFlows {
			if tn := findNodeIn(c.Defs, mf[1]); tn != nil && tn.Kind == "catch" {
				if _, ok := aimed[mf[1]]; !ok {
					catches = append(catches, mf[1])
				}
				aimed[mf[1]] += thrown[mf[0]]
			}
		}
		for _, cid := range catches {
			want := aimed[cid]
			if catchVisits[cid] < want {
				want = catchVisits[cid]
			}
			if catchLeaves[cid] != want {
				vl.add("C18/catch-wake-count", "throw events aimed at catch event %s were passed %d time(s) and %d token(s) arrived there: it should have continued %d time(s), it continued %d time(s)", cid, aimed[cid], catchVisits[cid], want, catchLeaves[cid])
			}
		}
		if allDone {
			if completes < waits {
				vl.add("C18/waiter-hangs", "every process of the set has completed but %d of %d WaitUntilComplete call(s) have not returned", waits-completes, waits)
			}
			if ceaseSet != 1 {
				vl.add("C18/cease-set-count", "CeaseProcessSetTrace seen %d time(s) after the set completed, want exactly 1", ceaseSet)
			}
		}
	}
	o.Viol = vl.v
	o.Tags = c.Tags
	o.Nontrivial = r.Switches > 0 && (len(c.Defs.Procs) > 1 || c.Waits > 1)
	trivial := false
	for _, g := range c.Defs.Procs {
		if len(g.AllTasks()) == 0 {
			trivial = true
		}
	}
	probe(o, "process-finishes-at-once", trivial)
	probe(o, "message-flow", len(c.Defs.MsgFlows) > 0)
	probe(o, "first-wait-with-a-deadline", c.FirstWaitMs > 0)
	probe(o, "first-wait-expired", func() bool {
		for _, ev := range c.env.L.E {
			if ev.Kind == "complete" && ev.B == "timed" && ev.A == "false" {
				return true
			}
		}
		return false
	}())
	probe(o, "throw-races-the-catch-event's-first-listening", c.Together > 0)
	probe(o, "process-bodies-inside-sub-processes", c.Nested > 0)
	probe(o, "message-flow-with-bodies-inside-sub-processes", c.Nested > 0 && len(c.Defs.MsgFlows) > 0)
	probe(o, "throw-burst", hasTag(c.Tags, "throw-burst"))
	probe(o, "two-throws-one-catch", hasTag(c.Tags, "two-throws-one-catch"))
	probe(o, "repeated-or-concurrent-waits", c.Waits > 1)
	o.Sample = map[string]any{"set": c.Desc, "buf": c.Buf}
	return o
}

func contains(xs []string, x string) bool {
	for _, y := range xs {
		if y == x {
			return true
		}
	}
	return false
}

func init() {
	Props["C18"] = &Scenario{Gen: genC18, Check: checkC18}
}
