package zzverif

import (
	"fmt"
	"sort"
)

// Reference token game: a small sequential interpreter of BPMN token semantics over Graph. It
// shares no code with the engine. It is driven by the observed history (task requested, task
// answered) and fails loudly on any observation it cannot explain.

type activation struct {
	id     int
	sub    *Node // nil for the top level
	graph  *Graph
	parent *activation
	live   int // tokens inside (including tokens inside nested activations, counted as the nested sub's one)
	joins  map[string]map[string]int // node id -> incoming flow id -> tokens waiting
}

type mtoken struct {
	node      *Node
	act       *activation
	requested bool
	stuck     bool
	interrupted bool // an interrupting boundary event fired: the normal flow must not continue
}

type Model struct {
	top      *activation
	vars     map[string]any
	objs     map[string]any
	tokens   []*mtoken // tokens resting at tasks (or stuck at gateways)
	Ends     map[string]int
	Errors   []string // gateway ids that found no effective flow
	nact     int
	acts     []*activation
	matched  map[string]map[int]int // parallel-multiple bookkeeping: catch node -> definition index -> matches not yet used
	Fired    map[string]int         // catch node -> number of times it released its tokens
	Dropped  int                    // events that found no armed matching listener
	boundaryFired map[string]int
	Throws   map[string]int // throw events passed by a token
	SubDone  map[string]int // sub-process node -> activations that ran empty (the parent token continued)
	Reqs     map[string]int
	Violations []string
	// loopCount counts answers per counter variable (the driver mirrors this)
}

func NewModel(g *Graph, vars map[string]any) *Model {
	m := &Model{vars: map[string]any{}, objs: map[string]any{}, Ends: map[string]int{}, Reqs: map[string]int{}}
	for k, v := range vars {
		m.vars[k] = v
	}
	g.index()
	m.top = &activation{graph: g, joins: map[string]map[string]int{}}
	m.acts = []*activation{m.top}
	return m
}

// StartAll places a token on every (none) start event of the top-level process.
func (m *Model) StartAll() {
	var starts []*Node
	for _, n := range m.top.graph.Nodes {
		if n.Kind == "start" && len(n.Events) == 0 {
			starts = append(starts, n)
		}
	}
	m.startAt(starts, m.top)
	m.settle()
}

// StartAt fires one start event.
func (m *Model) StartAt(id string) {
	m.startAt([]*Node{m.top.graph.Node(id)}, m.top)
	m.settle()
}

func (m *Model) startAt(starts []*Node, a *activation) {
	for _, n := range starts {
		a.live += len(n.Out)
	}
	for _, n := range starts {
		for _, f := range n.Out {
			m.arrive(a.graph.Flow(f), a)
		}
	}
}

func (m *Model) evalCond(c *Cond) bool {
	if c == nil || c.Informal {
		return true
	}
	switch {
	case c.Const != nil:
		return *c.Const
	case c.LtVar != "":
		v, ok := m.vars[c.LtVar]
		if !ok {
			return false
		}
		if c.Ge {
			return toInt(v) >= c.Lt
		}
		return toInt(v) < c.Lt
	case c.Obj != "":
		v := m.objs[c.Obj]
		b, _ := v.(bool)
		return b == c.Want
	default:
		v, ok := m.vars[c.Var]
		if !ok {
			return false
		}
		b, _ := v.(bool)
		return b == c.Want
	}
}

func toInt(v any) int {
	switch x := v.(type) {
	case int:
		return x
	case int64:
		return int(x)
	case float64:
		return int(x)
	case int32:
		return int(x)
	}
	return 0
}

// arrive moves one token along flow f to its target.
func (m *Model) arrive(f *Flow, a *activation) {
	n := a.graph.Node(f.To)
	switch n.Kind {
	case "task", "catch":
		m.tokens = append(m.tokens, &mtoken{node: n, act: a})
	case "end":
		m.Ends[n.ID]++
		m.consume(a)
	case "xor":
		m.leaveXor(n, a)
	case "and", "or":
		if a.joins[n.ID] == nil {
			a.joins[n.ID] = map[string]int{}
		}
		a.joins[n.ID][f.ID]++
		if n.Kind == "and" {
			m.tryAnd(n, a)
		}
		// inclusive gateways are evaluated in settle()
	case "sub":
		na := &activation{sub: n, graph: n.Sub, parent: a, joins: map[string]map[string]int{}}
		m.nact++
		na.id = m.nact
		m.acts = append(m.acts, na)
		n.Sub.index()
		var starts []*Node
		for _, sn := range n.Sub.Nodes {
			if sn.Kind == "start" {
				starts = append(starts, sn)
			}
		}
		total := 0
		for _, sn := range starts {
			total += len(sn.Out)
		}
		if total == 0 {
			// nothing inside: the parent continues at once
			m.leaveAll(n, a)
		} else {
			m.startAt(starts, na)
		}
	case "throw":
		if m.Throws == nil {
			m.Throws = map[string]int{}
		}
		m.Throws[n.ID]++
		m.leaveAll(n, a)
	case "evgw":
		// the token waits at the gateway; its alternatives (the catch events behind it) are armed
		m.tokens = append(m.tokens, &mtoken{node: n, act: a})
	default:
		m.Violations = append(m.Violations, "model: unsupported node kind "+n.Kind)
	}
}

// consume removes one token from activation a; when a sub-process activation runs empty its parent
// token continues.
func (m *Model) consume(a *activation) {
	a.live--
	if a.live == 0 && a.parent != nil {
		if m.SubDone == nil {
			m.SubDone = map[string]int{}
		}
		m.SubDone[a.sub.ID]++
		m.leaveAll(a.sub, a.parent)
	}
}

// leaveAll puts a token on every outgoing flow of n (the token at n is transformed into them).
func (m *Model) leaveAll(n *Node, a *activation) {
	if len(n.Out) == 0 {
		m.consume(a)
		return
	}
	a.live += len(n.Out) - 1
	for _, f := range n.Out {
		m.arrive(a.graph.Flow(f), a)
	}
}

func (m *Model) leaveXor(n *Node, a *activation) {
	for _, fid := range n.Out {
		if fid == n.Default {
			continue
		}
		f := a.graph.Flow(fid)
		if m.evalCond(f.Cond) {
			m.arrive(f, a)
			return
		}
	}
	if n.Default != "" {
		m.arrive(a.graph.Flow(n.Default), a)
		return
	}
	if len(n.Out) == 0 {
		m.consume(a)
		return
	}
	m.Errors = append(m.Errors, n.ID)
	m.tokens = append(m.tokens, &mtoken{node: n, act: a, stuck: true})
}

func (m *Model) tryAnd(n *Node, a *activation) {
	w := a.joins[n.ID]
	for _, fid := range n.In {
		if w[fid] == 0 {
			return
		}
	}
	for _, fid := range n.In {
		w[fid]--
	}
	// len(In) tokens consumed, len(Out) produced
	a.live -= len(n.In) - 1
	m.leaveAll(n, a)
	// a second full set may be waiting
	m.tryAnd(n, a)
}

// forkInclusive emits tokens per the inclusive (and conditional-task) rule.
func (m *Model) forkInclusive(n *Node, a *activation) {
	var taken []*Flow
	for _, fid := range n.Out {
		if fid == n.Default {
			continue
		}
		f := a.graph.Flow(fid)
		if m.evalCond(f.Cond) {
			taken = append(taken, f)
		}
	}
	if len(taken) == 0 && n.Default != "" {
		taken = append(taken, a.graph.Flow(n.Default))
	}
	if len(taken) == 0 {
		if len(n.Out) == 0 {
			m.consume(a)
			return
		}
		m.Errors = append(m.Errors, n.ID)
		m.tokens = append(m.tokens, &mtoken{node: n, act: a, stuck: true})
		return
	}
	a.live += len(taken) - 1
	for _, f := range taken {
		m.arrive(f, a)
	}
}

// reachIncoming computes the set of incoming flows of join j (in graph g) reachable from node
// `from` without visiting j.
func reachIncoming(g *Graph, from string, j *Node) map[string]bool {
	seen := map[string]bool{}
	res := map[string]bool{}
	var walk func(id string)
	walk = func(id string) {
		if seen[id] {
			return
		}
		seen[id] = true
		for _, fid := range g.Node(id).Out {
			f := g.Flow(fid)
			if f.To == j.ID {
				res[fid] = true
				continue
			}
			walk(f.To)
		}
	}
	walk(from)
	return res
}

// positions lists, for activation a, the node ids (at a's level) at which tokens currently sit,
// excluding tokens waiting at join `except`. Tokens inside nested sub-process activations count at
// their sub-process node.
func (m *Model) positions(a *activation, except *Node) []string {
	var out []string
	for _, t := range m.tokens {
		if !t.stuck && t.act == a {
			out = append(out, t.node.ID)
		}
	}
	for nid, w := range a.joins {
		if except != nil && nid == except.ID {
			continue
		}
		for _, c := range w {
			if c > 0 {
				out = append(out, nid)
				break
			}
		}
	}
	for _, x := range m.acts {
		if x.live > 0 && x.parent == a {
			out = append(out, x.sub.ID)
		}
	}
	sort.Strings(out)
	return out
}

func (m *Model) tryOr(n *Node, a *activation) bool {
	w := a.joins[n.ID]
	have := 0
	for _, fid := range n.In {
		if w[fid] > 0 {
			have++
		}
	}
	if have == 0 {
		return false
	}
	if have < len(n.In) {
		for _, pos := range m.positions(a, n) {
			r := reachIncoming(a.graph, pos, n)
			emptyReach, fullReach := false, false
			for fid := range r {
				if w[fid] == 0 {
					emptyReach = true
				} else {
					fullReach = true
				}
			}
			if emptyReach && !fullReach {
				return false
			}
		}
	}
	for _, fid := range n.In {
		if w[fid] > 0 {
			w[fid]--
		}
	}
	a.live -= have - 1
	m.forkInclusive(n, a)
	return true
}

// settle runs the silent transitions that need a global view (inclusive joins) to a fixpoint.
func (m *Model) settle() {
	for changed := true; changed; {
		changed = false
		for k := 0; k < len(m.acts); k++ {
			a := m.acts[k]
			if a.live <= 0 {
				continue
			}
			ids := make([]string, 0, len(a.joins))
			for id := range a.joins {
				ids = append(ids, id)
			}
			sort.Strings(ids)
			for _, id := range ids {
				n := a.graph.Node(id)
				if n.Kind == "or" && m.tryOr(n, a) {
					changed = true
				}
			}
		}
	}
}

// Request records an observed task request. It returns an error text if the activity is not enabled.
func (m *Model) Request(id string) string {
	m.Reqs[id]++
	for _, t := range m.tokens {
		if t.node.ID == id && !t.requested && !t.stuck && t.node.Kind == "task" {
			t.requested = true
			return ""
		}
	}
	return fmt.Sprintf("activity %s requested while the token game has no unrequested token there (requested twice for one token, or before it was enabled)", id)
}

// Answer applies an effective successful answer to a requested task: declared results are stored
// and the token moves on. The outgoing rule for activities is BPMN's: every flow whose condition
// holds, the default flow only if none does.
func (m *Model) Answer(id string, results map[string]any, dataOut map[string]any) string {
	for i, t := range m.tokens {
		if t.node.ID == id && t.requested {
			m.tokens = append(m.tokens[:i], m.tokens[i+1:]...)
			if t.interrupted {
				// the activity was interrupted: its answer has no effect, the token is gone
				m.consume(t.act)
				m.settle()
				return ""
			}
			for _, r := range t.node.Results {
				if v, ok := results[r]; ok {
					m.vars[r] = v
				}
			}
			for _, r := range t.node.DataOut {
				if v, ok := dataOut[r]; ok {
					m.objs[r] = v
				}
			}
			m.leaveTask(t.node, t.act)
			m.settle()
			return ""
		}
	}
	return fmt.Sprintf("answer for %s but the token game has no requested token there", id)
}

// Drop removes a requested token (error answer in exit mode).
func (m *Model) Drop(id string) string {
	for i, t := range m.tokens {
		if t.node.ID == id && t.requested {
			m.tokens = append(m.tokens[:i], m.tokens[i+1:]...)
			m.consume(t.act)
			m.settle()
			return ""
		}
	}
	return fmt.Sprintf("drop for %s but the token game has no requested token there", id)
}

// Rerequest makes a requested token requestable again (retry).
func (m *Model) Rerequest(id string) string {
	for _, t := range m.tokens {
		if t.node.ID == id && t.requested {
			t.requested = false
			return ""
		}
	}
	return fmt.Sprintf("retry for %s but the token game has no requested token there", id)
}

func (m *Model) leaveTask(n *Node, a *activation) {
	conditional := false
	for _, fid := range n.Out {
		if a.graph.Flow(fid).Cond != nil {
			conditional = true
		}
	}
	if !conditional && n.Default == "" {
		m.leaveAll(n, a)
		return
	}
	m.forkInclusive(n, a)
}

// Live is the number of tokens left in the instance.
func (m *Model) Live() int { return m.top.live }

// Pending lists activities with a token that has not been requested (enabled but not yet run).
func (m *Model) Pending() []string {
	var out []string
	for _, t := range m.tokens {
		if !t.requested && !t.stuck && t.node.Kind == "task" {
			out = append(out, t.node.ID)
		}
	}
	sort.Strings(out)
	return out
}

// Waiting lists requested-but-unanswered activities.
func (m *Model) Waiting() []string {
	var out []string
	for _, t := range m.tokens {
		if t.requested {
			out = append(out, t.node.ID)
		}
	}
	sort.Strings(out)
	return out
}

func (m *Model) Vars() map[string]any { return m.vars }

func defMatches(d EventDef, kind, ref string) bool { return d.Kind == kind && d.Ref == ref }

// Deliver applies one event to the instance: every armed catch event (a catch event with waiting
// tokens) that matches releases all its waiting tokens once; an event-based gateway whose alternative
// matches lets its token continue behind that alternative and withdraws the others. Events that find
// no armed matching listener are dropped without any later effect.
func (m *Model) Deliver(kind, ref string) {
	if m.matched == nil {
		m.matched = map[string]map[int]int{}
		m.Fired = map[string]int{}
	}
	type key struct {
		n *Node
		a *activation
	}
	var order []key
	seen := map[key]bool{}
	for _, t := range m.tokens {
		if t.stuck || (t.node.Kind != "catch" && t.node.Kind != "evgw") {
			continue
		}
		k := key{t.node, t.act}
		if !seen[k] {
			seen[k] = true
			order = append(order, k)
		}
	}
	any := false
	// boundary events: they react while their host activity holds a token (is waiting for its answer);
	// the exception flow continues once per event and boundary event, however many tokens wait inside
	doneB := map[string]bool{}
	for _, t := range append([]*mtoken{}, m.tokens...) {
		if t.stuck || t.node.Kind != "task" && t.node.Kind != "sub" {
			continue
		}
		for _, b := range t.act.graph.Nodes {
			if b.Kind != "boundary" || b.Attached != t.node.ID {
				continue
			}
			hit := false
			for _, d := range b.Events {
				if defMatches(d, kind, ref) {
					hit = true
				}
			}
			if !hit {
				continue
			}
			key := fmt.Sprintf("%s/%d", b.ID, t.act.id)
			if m.boundaryFired == nil {
				m.boundaryFired = map[string]int{}
			}
			if b.Interrupting {
				t.interrupted = true
			}
			if doneB[key] {
				continue
			}
			doneB[key] = true
			if b.Interrupting && m.boundaryFired[key] > 0 {
				continue // an interrupting boundary event fires once per activation of its host
			}
			any = true
			m.boundaryFired[key]++
			m.Fired[b.ID]++
			t.act.live += len(b.Out)
			for _, f := range b.Out {
				m.arrive(t.act.graph.Flow(f), t.act)
			}
		}
	}
	// boundary events attached to a sub-process react while its activation holds tokens
	for _, x := range append([]*activation{}, m.acts...) {
		if x.sub == nil || x.live <= 0 || x.parent == nil {
			continue
		}
		for _, b := range x.parent.graph.Nodes {
			if b.Kind != "boundary" || b.Attached != x.sub.ID {
				continue
			}
			hit := false
			for _, d := range b.Events {
				if defMatches(d, kind, ref) {
					hit = true
				}
			}
			if !hit {
				continue
			}
			key := fmt.Sprintf("%s/%d", b.ID, x.id)
			if m.boundaryFired == nil {
				m.boundaryFired = map[string]int{}
			}
			if b.Interrupting && m.boundaryFired[key] > 0 {
				continue
			}
			any = true
			m.boundaryFired[key]++
			m.Fired[b.ID]++
			x.parent.live += len(b.Out)
			for _, f := range b.Out {
				m.arrive(x.parent.graph.Flow(f), x.parent)
			}
		}
	}
	for _, k := range order {
		n := k.n
		if n.Kind == "evgw" {
			// alternatives in listed order
			for _, fid := range n.Out {
				alt := k.a.graph.Node(k.a.graph.Flow(fid).To)
				hit := false
				for _, d := range alt.Events {
					if defMatches(d, kind, ref) {
						hit = true
					}
				}
				if hit {
					any = true
					m.Fired[alt.ID]++
					// every token waiting at the gateway continues behind the winning alternative
					var rest []*mtoken
					var moved []*mtoken
					for _, t := range m.tokens {
						if t.node == n && t.act == k.a {
							moved = append(moved, t)
						} else {
							rest = append(rest, t)
						}
					}
					m.tokens = rest
					for range moved {
						m.leaveAll(alt, k.a)
					}
					break
				}
			}
			continue
		}
		if n.Relaxed {
			continue
		}
		idx := -1
		for i, d := range n.Events {
			if defMatches(d, kind, ref) {
				idx = i
				break
			}
		}
		if idx < 0 {
			continue
		}
		any = true
		fire := true
		if n.Parallel && len(n.Events) > 1 {
			mk := fmt.Sprintf("%s/%d", n.ID, k.a.id)
			if m.matched[mk] == nil {
				m.matched[mk] = map[int]int{}
			}
			m.matched[mk][idx]++
			for i := range n.Events {
				if m.matched[mk][i] == 0 {
					fire = false
				}
			}
			if fire {
				for i := range n.Events {
					m.matched[mk][i]--
				}
			}
		}
		if !fire {
			continue
		}
		m.Fired[n.ID]++
		var rest, moved []*mtoken
		for _, t := range m.tokens {
			if t.node == n && t.act == k.a {
				moved = append(moved, t)
			} else {
				rest = append(rest, t)
			}
		}
		m.tokens = rest
		for range moved {
			m.leaveAll(n, k.a)
		}
	}
	if !any {
		m.Dropped++
	}
	m.settle()
}

// Listening lists catch events (and event-based gateways) that currently hold a token.
func (m *Model) Listening() []string {
	var out []string
	for _, t := range m.tokens {
		if !t.stuck && (t.node.Kind == "catch" || t.node.Kind == "evgw") {
			out = append(out, t.node.ID)
		}
	}
	sort.Strings(out)
	return out
}

// ReleaseCatch lets every token waiting at catch event id continue (used for catch events whose firing
// the property only bounds: the model follows the engine's own LeaveTrace there).
func (m *Model) ReleaseCatch(id string) bool {
	// one LeaveTrace is one token leaving: release one
	var rest, moved []*mtoken
	for _, t := range m.tokens {
		if len(moved) == 0 && t.node.ID == id && t.node.Kind == "catch" && !t.stuck {
			moved = append(moved, t)
		} else {
			rest = append(rest, t)
		}
	}
	if len(moved) == 0 {
		return false
	}
	m.tokens = rest
	for _, t := range moved {
		m.leaveAll(t.node, t.act)
	}
	m.settle()
	return true
}
