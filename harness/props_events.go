package zzverif

import (
	"time"
	"fmt"
	"strings"

	"verif/sim/simrt"
)

// ---------- C11: events reach every listening catch event exactly once and delivery never blocks ----------

// genC11Burst: one armed catch event, a slow trace subscriber holding the engine up, and a burst of
// events from separate goroutines of which exactly one matches: whatever the order, the listener has
// to continue exactly once and every ConsumeEvent call has to return.
func genC11Burst(d *Draw) Case {
	defs := &Definitions{}
	g := &Graph{ID: "P1", Executable: true}
	defs.Procs = []*Graph{g}
	defs.Signals = []string{"sA", "sX", "sY"}
	defs.Messages = []string{"mX"}
	g.addNode(&Node{ID: "Start", Kind: "start"})
	g.addNode(&Node{ID: "C1", Kind: "catch", Events: []EventDef{{Kind: "signal", Ref: "sA"}}})
	g.connect(defs, "Start", "C1", nil, -1)
	g.addNode(&Node{ID: "T1", Kind: "task", Results: []string{"r_T1"}})
	g.connect(defs, "C1", "T1", nil, -1)
	g.addNode(&Node{ID: "End", Kind: "end"})
	g.connect(defs, "T1", "End", nil, -1)
	g.index()
	c := &ProcCase{Buf: d.N(3), Hold: d.N(3), ExtraObs: 1, SlowObsMs: 5 + 10*d.N(4)}
	k := 6 + d.N(26) // the relay between the two tracers buffers ten traces before back-pressure reaches the node
	pos := d.N(k + 1)
	noise := []EvPlan{{Kind: "signal", Ref: "sX"}, {Kind: "signal", Ref: "sY"}, {Kind: "message", Ref: "mX"}}
	prompt := d.Bool() // the burst starts the moment the listener reports that it listens, not when all is at rest
	var evd []string
	for i := 0; i <= k; i++ {
		ep := noise[d.N(len(noise))]
		if i == pos {
			ep = EvPlan{Kind: "signal", Ref: "sA"}
		}
		ep.Own, ep.Exact, ep.WhenListening = true, true, 1
		ep.Prompt = prompt
		c.Events = append(c.Events, ep)
		evd = append(evd, ep.Ref)
	}
	c.Prog = &Program{Defs: defs, Vars: map[string]any{}, Tags: []string{"burst"}, Desc: fmt.Sprintf("one catch (sA), slow subscriber %dms/trace, burst %v from separate goroutines", c.SlowObsMs, evd)}
	c.Picks = drawPicks(d, 16)
	c.Meta = map[string]int{"racy": 0, "burst": 1, "nevents": len(c.Events)}
	nestEvents(d, c)
	return c
}

func genC11(d *Draw) Case {
	if d.N(5) == 4 {
		return genC11Burst(d)
	}
	defs := &Definitions{}
	g := &Graph{ID: "P1", Executable: true}
	defs.Procs = []*Graph{g}
	refs := []string{"sA", "sB", "mA", "mB", "mA#op1", "eA", "xA"} // "m#op": a message definition with an operation reference; e: escalation, x: error
	kindOf := func(r string) string {
		switch {
		case strings.HasPrefix(r, "m"):
			return "message"
		case strings.HasPrefix(r, "e"):
			return "escalation"
		case strings.HasPrefix(r, "x"):
			return "error"
		}
		return "signal"
	}
	defs.Signals = []string{"sA", "sB", "sX"}
	defs.Messages = []string{"mA", "mB", "mX"}
	defs.Escalations = []string{"eA", "eX"}
	defs.Errors = []string{"xA", "xX"}
	mkTask := func(id string) *Node {
		return g.addNode(&Node{ID: id, Kind: "task", Results: []string{"r_" + id}})
	}
	mkCatch := func(id string, ref string) *Node {
		return g.addNode(&Node{ID: id, Kind: "catch", Events: []EventDef{{Kind: kindOf(ref), Ref: ref}}})
	}
	st := g.addNode(&Node{ID: "Start", Kind: "start"})
	nc := 1 + d.N(3)
	shape := d.N(3) // 0 sequence, 1 parallel, 2 sequence + an untaken branch with a catch and a throw event
	startDef := d.N(3) == 2
	if startDef {
		// the start event carries an event definition of its own (it is triggered explicitly all the same): it is
		// one more consumer in front of the catch events, and one that has nothing to say once it has fired
		// (a signal / message of its own that is never delivered: an instance started explicitly AND by its
		// event would rightly run twice)
		if d.Bool() {
			st.StartDefs = []EventDef{{Kind: "signal", Ref: "sStart"}}
			defs.Signals = append(defs.Signals, "sStart")
		} else {
			st.StartDefs = []EventDef{{Kind: "message", Ref: "mStart"}}
			defs.Messages = append(defs.Messages, "mStart")
		}
	}
	var used []string
	pre := d.N(2) == 1 // a task before the first catch: events can then arrive before anything listens
	cur := "Start"
	if pre {
		mkTask("T0")
		g.connect(defs, cur, "T0", nil, -1)
		cur = "T0"
	}
	vars := map[string]any{}
	if shape == 2 {
		g.addNode(&Node{ID: "X", Kind: "xor"})
		g.connect(defs, cur, "X", nil, -1)
		// untaken branch
		vars["never"] = false
		cu := mkCatch("CU", refs[d.N(len(refs))])
		g.connect(defs, "X", cu.ID, &Cond{Var: "never", Want: true}, -1)
		th := g.addNode(&Node{ID: "TH", Kind: "throw", Events: []EventDef{{Kind: "signal", Ref: "sX"}}})
		g.connect(defs, cu.ID, th.ID, nil, -1)
		eu := g.addNode(&Node{ID: "EU", Kind: "end"})
		g.connect(defs, th.ID, eu.ID, nil, -1)
		g.addNode(&Node{ID: "XC", Kind: "xor"})
		df := g.connect(defs, "X", "XC", nil, -1)
		g.Node("X").Default = df.ID
		cur = "XC"
		used = append(used, cu.Events[0].Ref)
	}
	sameFlow := shape == 0 && d.N(4) == 3
	sameFlowK := 0
	if sameFlow {
		// two or three tokens reach the first catch event over one and the same sequence flow (parallel fork,
		// exclusive merge): all of them wait there when the event comes, all of them continue
		k := 2 + d.N(2)
		sameFlowK = k
		g.addNode(&Node{ID: "SF", Kind: "and"})
		g.connect(defs, cur, "SF", nil, -1)
		g.addNode(&Node{ID: "SM", Kind: "xor"})
		for i := 0; i < k; i++ {
			if d.Bool() {
				t := mkTask(fmt.Sprintf("TS%d", i+1))
				g.connect(defs, "SF", t.ID, nil, -1)
				g.connect(defs, t.ID, "SM", nil, -1)
			} else {
				g.connect(defs, "SF", "SM", nil, -1)
			}
		}
		cur = "SM"
	}
	if shape == 1 && nc > 1 {
		g.addNode(&Node{ID: "F", Kind: "and"})
		g.connect(defs, cur, "F", nil, -1)
		g.addNode(&Node{ID: "J", Kind: "and"})
		for i := 1; i <= nc; i++ {
			ref := refs[d.N(len(refs))]
			used = append(used, ref)
			c := mkCatch(fmt.Sprintf("C%d", i), ref)
			t := mkTask(fmt.Sprintf("T%d", i))
			g.connect(defs, "F", c.ID, nil, -1)
			g.connect(defs, c.ID, t.ID, nil, -1)
			g.connect(defs, t.ID, "J", nil, -1)
		}
		cur = "J"
	} else {
		for i := 1; i <= nc; i++ {
			ref := refs[d.N(len(refs))]
			used = append(used, ref)
			c := mkCatch(fmt.Sprintf("C%d", i), ref)
			t := mkTask(fmt.Sprintf("T%d", i))
			g.connect(defs, cur, c.ID, nil, -1)
			g.connect(defs, c.ID, t.ID, nil, -1)
			cur = t.ID
		}
	}
	g.addNode(&Node{ID: "End", Kind: "end"})
	g.connect(defs, cur, "End", nil, -1)
	g.index()
	// event history: matching, non-matching, repeated
	ne := d.N(9)
	pool := append(append([]string{}, used...), "sX", "mX", refs[d.N(len(refs))], []string{"eX", "xX", "eA", "xA"}[d.N(4)])
	// message events with, without and with another operation than the listeners' definitions
	for _, u := range used {
		if strings.HasPrefix(u, "m") {
			base, _, _ := strings.Cut(u, "#")
			pool = append(pool, base, base+"#op1", base+"#op2")
		}
	}
	c := &ProcCase{Buf: d.N(17), Hold: d.N(3)}
	racy := d.N(4) == 3
	var evd []string
	for i := 0; i < ne; i++ {
		ref := pool[d.N(len(pool))]
		ep := EvPlan{Kind: kindOf(ref), Ref: ref}
		if racy {
			ep.Own = true
			ep.After = d.N(40)
			ep.Prompt = d.Bool() // in the middle of whatever the engine does after that trace, or at the next moment of rest
		}
		c.Events = append(c.Events, ep)
		evd = append(evd, ref)
	}
	// make sure the instance can finish: append the awaited events in order at the end (quiescent deliveries)
	final := false
	if d.N(3) != 0 {
		final = true
		for _, ref := range used[len(used)-nc:] {
			c.Events = append(c.Events, EvPlan{Kind: kindOf(ref), Ref: ref, Last: true})
			evd = append(evd, ref)
		}
	}
	tags := []string{}
	if racy {
		tags = append(tags, "racy-events")
	}
	c.Prog = &Program{Defs: defs, Vars: vars, Tags: tags, Desc: fmt.Sprintf("catches=%v shape=%d pre-task=%v events=%v racy=%v", used, shape, pre, evd, racy)}
	c.Picks = drawPicks(d, 40)
	c.Meta = map[string]int{"racy": b2i(racy), "nevents": len(c.Events), "shape": shape, "final": b2i(final), "parallel": b2i(shape == 1 && nc > 1), "startDef": b2i(startDef), "sameFlow": b2i(sameFlow), "sameFlowK": sameFlowK}
	for _, u := range used {
		if strings.HasPrefix(u, "e") || strings.HasPrefix(u, "x") {
			c.Meta["esc"] = 1
		}
	}
	nestEvents(d, c)
	return c
}

// nestEvents (one run in four): the whole body of the process is moved into an embedded sub-process, one or two
// levels deep, so that its catch / throw / boundary events and event-based gateways register with the sub-process
// and every delivered event passes the sub-process' own forwarding stage(s).
func nestEvents(d *Draw, c *ProcCase) {
	if d.N(4) != 3 {
		return
	}
	lv := 1 + d.N(2)
	g0 := c.Prog.Defs.Procs[0]
	endID := "End"
	if g0.Node("End") == nil && g0.Node("EN") != nil {
		endID = "EN" // (C10: the end event of the normal path; the exception paths' end events move inside)
	}
	if nestBodyBetween(c.Prog.Defs, g0, "Start", endID, lv) {
		c.Prog.Tags = append(c.Prog.Tags, "events-in-subprocess")
		c.Prog.Desc += fmt.Sprintf(" [body nested in %d sub-process level(s)]", lv)
		if c.Meta != nil {
			c.Meta["nested"] = lv
		}
	}
}

func b2i(b bool) int {
	if b {
		return 1
	}
	return 0
}

// eventCallsReturned checks that every ConsumeEvent call came back.
func eventCallsReturned(pfx string, c *ProcCase, vl *vlist) (calls int) {
	open := map[string]int{}
	for _, ev := range c.env.L.E {
		switch ev.Kind {
		case "ev":
			calls++
			open["q"]++
		case "ev-ret":
			open["q"]--
		case "rev":
			calls++
			open[fmt.Sprint("r", ev.G)]++
		case "rev-ret":
			open[fmt.Sprint("r", ev.G)]--
		}
	}
	for k, n := range open {
		if n > 0 {
			vl.add(pfx+"/consume-event-blocked", "%d ConsumeEvent call(s) (%s) had not returned when the system was quiescent", n, k)
		}
	}
	return calls
}

func checkC11(cc Case, r *simrt.Result) *Outcome {
	c := cc.(*ProcCase)
	o := &Outcome{}
	var vl vlist
	genericRunViolations("C11", r, &vl)
	for _, p := range r.Panics {
		vl.add("C11/panic", "%s", p)
	}
	calls := eventCallsReturned("C11", c, &vl)
	var tg *TokenGameResult
	if c.Meta["racy"] == 0 {
		// every event was handed over while the engine was quiescent: the listener model is exact
		tg = CheckTokenGame("C11", c.Prog, c.env.L.E)
		vl.v = append(vl.v, tg.Viol...)
	} else {
		// racing deliveries: an event may legitimately find its listener armed or not yet armed. Safety only:
		// a catch event never continues more often than matching events were delivered.
		g := c.Prog.Defs.Procs[0]
		delivered := map[string]int{}
		for _, ev := range c.env.L.E {
			if ev.Kind == "ev" || ev.Kind == "rev" {
				delivered[ev.A+":"+ev.B]++
			}
		}
		leaves := map[string]int{}
		for _, ev := range c.env.L.E {
			if ev.Kind == "t:leave" {
				leaves[ev.A]++
			}
		}
		for _, n := range g.allNodes() {
			if n.Kind != "catch" {
				continue
			}
			m := 0
			for _, dff := range n.Events {
				m += delivered[dff.Kind+":"+dff.Ref]
			}
			if c.Meta["sameFlowK"] > 1 {
				m *= c.Meta["sameFlowK"] // one event releases every token that waits there
			}
			if leaves[n.ID] > m {
				vl.add("C11/continued-without-event", "catch event %s continued %d time(s) but only %d matching event(s) were delivered", n.ID, leaves[n.ID], m)
			}
		}
		// liveness: after the racing deliveries every awaited event was delivered once more, one at a time,
		// at quiescent moments, in the order of the (sequential) catch events: each of them finds its
		// listener armed or already passed, so the instance has to complete
		if c.Meta["final"] == 1 && c.Meta["parallel"] == 0 {
			done := false
			q := false
			for _, ev := range c.env.L.E {
				if ev.Kind == "quiescent" {
					q = true
				}
				if ev.Kind == "complete" && ev.A == "true" && !q {
					done = true
				}
			}
			if !done && !r.StepCap {
				vl.add("C11/listener-stuck", "every awaited event was delivered again at a quiescent moment after the racing deliveries, but the instance did not complete: some listening catch event no longer reacts")
			}
		}
	}
	o.Viol = vl.v
	o.Tags = c.Prog.Tags
	o.Nontrivial = r.Switches > 0 && calls > 0
	if tg != nil {
		probe(o, "event-dropped-nobody-listening", tg.M.Dropped > 0)
		fired := 0
		for _, n := range tg.M.Fired {
			fired += n
		}
		probe(o, "listener-fired", fired > 0)
	}
	probe(o, "racy-deliveries", c.Meta["racy"] == 1)
	probe(o, "event-nodes-inside-sub-process", c.Meta["nested"] > 0)
	probe(o, "burst-behind-slow-subscriber", c.Meta["burst"] == 1)
	probe(o, "more-events-than-inbox", calls > 3)
	probe(o, "untaken-branch-listener", c.Meta["shape"] == 2)
	probe(o, "escalation-or-error-definitions", c.Meta["esc"] == 1)
	probe(o, "several-tokens-wait-at-one-catch-event-over-the-same-flow", c.Meta["sameFlow"] == 1)
	probe(o, "start-event-with-a-definition-of-its-own", c.Meta["startDef"] == 1)
	o.Sample = map[string]any{"program": c.Prog.Desc, "buf": c.Buf, "hold": c.Hold}
	return o
}

func init() {
	Props["C11"] = &Scenario{Gen: genC11, Check: checkC11}
}

// ---------- C14: multiple / parallel-multiple catch events account correctly over any history ----------

// genC14Bare: a process without any activity - start event, the catch event, end event. The catch event is then
// the consumer the instance registered last, and nothing but the event history drives the run.
func genC14Bare(d *Draw) Case {
	defs := &Definitions{}
	g := &Graph{ID: "P1", Executable: true}
	defs.Procs = []*Graph{g}
	defs.Signals = []string{"s1", "s2", "sX"}
	defs.Messages = []string{"m1", "m2", "mX"}
	all := []EventDef{{Kind: "signal", Ref: "s1"}, {Kind: "message", Ref: "m1"}, {Kind: "signal", Ref: "s2"}, {Kind: "message", Ref: "m2"}}
	defs.Escalations = []string{"e1"}
	defs.Errors = []string{"x1"}
	nd := 1 + d.N(4)
	cm := &Node{ID: "CM", Kind: "catch", Parallel: d.N(3) != 0}
	cm.Relaxed = cm.Parallel
	perm := []int{0, 1, 2, 3}
	for i := 3; i > 0; i-- {
		j := d.N(i + 1)
		perm[i], perm[j] = perm[j], perm[i]
	}
	for _, k := range perm[:nd] {
		cm.Events = append(cm.Events, all[k])
	}
	g.addNode(&Node{ID: "Start", Kind: "start"})
	g.addNode(cm)
	g.connect(defs, "Start", "CM", nil, -1)
	g.addNode(&Node{ID: "End", Kind: "end"})
	g.connect(defs, "CM", "End", nil, -1)
	g.index()
	pool := append(append([]EventDef{}, cm.Events...), EventDef{Kind: "signal", Ref: "sX"}, EventDef{Kind: "message", Ref: "mX"})
	c := &ProcCase{Buf: d.N(17), Hold: d.N(3)}
	var evd []string
	for i, ne := 0, 1+d.N(9); i < ne; i++ {
		e := pool[d.N(len(pool))]
		c.Events = append(c.Events, EvPlan{Kind: e.Kind, Ref: e.Ref})
		evd = append(evd, e.Ref)
	}
	var dd []string
	for _, e := range cm.Events {
		dd = append(dd, e.Ref)
	}
	c.Prog = &Program{Defs: defs, Vars: map[string]any{}, Desc: fmt.Sprintf("process without activities: catch defs=%v parallelMultiple=%v events=%v", dd, cm.Parallel, evd)}
	c.Picks = drawPicks(d, 16)
	c.Meta = map[string]int{"parallel": b2i(cm.Parallel), "ndefs": nd, "bare": 1}
	return c
}

func genC14(d *Draw) Case {
	if d.N(6) == 5 {
		return genC14Bare(d)
	}
	defs := &Definitions{}
	g := &Graph{ID: "P1", Executable: true}
	defs.Procs = []*Graph{g}
	defs.Signals = []string{"s1", "s2", "sX"}
	defs.Messages = []string{"m1", "m2", "mX"}
	all := []EventDef{{Kind: "signal", Ref: "s1"}, {Kind: "message", Ref: "m1"}, {Kind: "signal", Ref: "s2"}, {Kind: "message", Ref: "m2"}}
	nd := 1 + d.N(4)
	cm := &Node{ID: "CM", Kind: "catch", Parallel: d.N(3) != 0}
	cm.Relaxed = cm.Parallel // the property bounds the firings of a parallel-multiple catch, it does not fix them
	// a random subset of nd definitions in random order
	perm := []int{0, 1, 2, 3}
	for i := 3; i > 0; i-- {
		j := d.N(i + 1)
		perm[i], perm[j] = perm[j], perm[i]
	}
	for _, k := range perm[:nd] {
		cm.Events = append(cm.Events, all[k])
	}
	acts := 1 + d.N(3)
	g.addNode(&Node{ID: "Start", Kind: "start"})
	// a throw event with the same definitions on a branch that is never taken: it only provides the
	// element for the ThrowEventSatisfier cross-check
	g.addNode(&Node{ID: "XT", Kind: "xor"})
	g.connect(defs, "Start", "XT", nil, -1)
	g.addNode(&Node{ID: "TH", Kind: "throw", Events: append([]EventDef{}, cm.Events...)})
	g.connect(defs, "XT", "TH", &Cond{Var: "never", Want: true}, -1)
	g.addNode(&Node{ID: "ET", Kind: "end"})
	g.connect(defs, "TH", "ET", nil, -1)
	g.addNode(&Node{ID: "LM", Kind: "xor"})
	dfx := g.connect(defs, "XT", "LM", nil, -1)
	g.Node("XT").Default = dfx.ID
	g.addNode(cm)
	g.connect(defs, "LM", "CM", nil, -1)
	tc := g.addNode(&Node{ID: "TC", Kind: "task", Results: []string{"r_TC", "i_TC"}, Counter: "i_TC"})
	g.connect(defs, "CM", tc.ID, nil, -1)
	g.addNode(&Node{ID: "LS", Kind: "xor"})
	g.connect(defs, "TC", "LS", nil, -1)
	g.connect(defs, "LS", "LM", &Cond{LtVar: "i_TC", Lt: acts}, -1)
	g.addNode(&Node{ID: "End", Kind: "end"})
	df := g.connect(defs, "LS", "End", nil, -1)
	g.Node("LS").Default = df.ID
	g.index()
	pool := append(append([]EventDef{}, cm.Events...), EventDef{Kind: "signal", Ref: "sX"}, EventDef{Kind: "message", Ref: "mX"})
	if nd < 4 {
		pool = append(pool, all[perm[3]]) // a definition of another catch: also non-matching here
	}
	c := &ProcCase{Buf: d.N(17), Hold: d.N(3)}
	ne := d.N(10)
	var evd []string
	if d.N(4) == 3 {
		// concurrent stratum: every definition is matched exactly once, by events handed over from separate
		// goroutines at the same moment once the catch event listens; whatever the order, it fires once
		acts = 1
		g.Flow(g.Node("LS").Out[0]).Cond.Lt = 1
		for _, e := range cm.Events {
			c.Events = append(c.Events, EvPlan{Kind: e.Kind, Ref: e.Ref, Own: true, Exact: true, WhenListening: 1})
			evd = append(evd, e.Ref+"(concurrent)")
		}
		if d.Bool() {
			for i := range c.Events {
				c.Events[i].Prompt = true
			}
		}
		ne = 0
		cm.Relaxed = false
	}
	for i := 0; i < ne; i++ {
		e := pool[d.N(len(pool))]
		c.Events = append(c.Events, EvPlan{Kind: e.Kind, Ref: e.Ref})
		evd = append(evd, e.Ref)
	}
	if ne >= 2 && d.N(2) == 1 {
		// burst stratum: 2..24 further events are put in front and handed over back to back by one client while
		// a slow trace subscriber holds the node up (the relay between the tracers buffers ten traces before the
		// back-pressure reaches the node), so that they pile up in and beyond its inbox; the node has to take
		// them in the order in which they were handed over.
		nb := 2 + d.N(23)
		var front []EvPlan
		var fd []string
		for i := 0; i < nb; i++ {
			e := cm.Events[d.N(len(cm.Events))]
			if d.N(8) == 7 {
				e = pool[d.N(len(pool))]
			}
			front = append(front, EvPlan{Kind: e.Kind, Ref: e.Ref})
			fd = append(fd, e.Ref)
		}
		if len(cm.Events) >= 2 && cm.Parallel && d.N(3) != 0 {
			// the pattern in which the order inside the burst matters most: a partial set, filler that fills the
			// inbox, a second partial set (surplus) and right behind it the event that completes the first set;
			// once the token is back, the completing event alone makes the kept surplus set fire
			front, fd = nil, nil
			add := func(e EventDef) {
				front = append(front, EvPlan{Kind: e.Kind, Ref: e.Ref})
				fd = append(fd, e.Ref)
			}
			lastDef := cm.Events[len(cm.Events)-1]
			for _, e := range cm.Events[:len(cm.Events)-1] {
				add(e)
			}
			// (every event observed by the listening node costs a trace; the relay between the tracers buffers ten
			// of them before a slow subscriber holds the node up, and its inbox then takes three more events)
			nf := 2 + d.N(6)
			if d.Bool() {
				nf = 12 + d.N(12)
			}
			for i := 0; i < nf; i++ {
				add(EventDef{Kind: "signal", Ref: "sX"})
			}
			for _, e := range cm.Events[:len(cm.Events)-1] {
				add(e)
			}
			add(lastDef)
			nb = len(front)
			if acts < 2 {
				acts = 2
				g.Flow(g.Node("LS").Out[0]).Cond.Lt = acts
			}
			// nothing else is delivered: every definition is then matched exactly twice while the catch listens,
			// which pins the outcome (two firings), so the counting model is exact here; for arbitrary bursts
			// the property only bounds the firings and the catch stays relaxed
			c.Events = []EvPlan{{Kind: lastDef.Kind, Ref: lastDef.Ref, Last: true}}
			evd = []string{lastDef.Ref + "(once the token is back)"}
			cm.Relaxed = false
		}
		front[0].Burst = nb - 1
		c.Events = append(front, c.Events...)
		c.ExtraObs = 1
		c.SlowObsMs = 2 + 6*d.N(4)
		evd = append([]string{fmt.Sprintf("burst%v", fd)}, evd...)
	}
	var dd []string
	for _, e := range cm.Events {
		dd = append(dd, e.Ref)
	}
	c.Prog = &Program{Defs: defs, Vars: map[string]any{"never": false}, Desc: fmt.Sprintf("catch defs=%v parallelMultiple=%v activations<=%d events=%v", dd, cm.Parallel, acts, evd)}
	c.Picks = drawPicks(d, 40)
	c.Meta = map[string]int{"parallel": b2i(cm.Parallel), "ndefs": nd}
	if d.N(3) == 2 {
		// two of the definitions are an escalation and an error definition instead (the references keep their names)
		swap := map[string]EventDef{"s2": {Kind: "escalation", Ref: "e1"}, "m2": {Kind: "error", Ref: "x1"}}
		for i, e := range cm.Events {
			if nw, ok := swap[e.Ref]; ok {
				cm.Events[i] = nw
				c.Meta["esc"] = 1
			}
		}
		if th := g.Node("TH"); th != nil {
			for i, e := range th.Events {
				if nw, ok := swap[e.Ref]; ok {
					th.Events[i] = nw
				}
			}
		}
		for i, e := range c.Events {
			if nw, ok := swap[e.Ref]; ok {
				c.Events[i].Kind, c.Events[i].Ref = nw.Kind, nw.Ref
			}
		}
	}
	if d.N(5) == 4 {
		// a signal and a message that carry the same name (two definitions of different kinds under one name)
		renameRefs(c, map[string]string{"m1": "s1", "m2": "s2", "mX": "sX"})
		c.Meta["sameName"] = 1
	} else if d.N(4) == 3 {
		// names that share what follows a colon (as identifiers with a modeller's prefix do)
		ren := map[string]string{"s1": "ord:evt", "s2": "inv:evt", "sX": "pay:evt", "m1": "ord:msg", "m2": "inv:msg", "mX": "pay:msg", "e1": "ord:esc", "x1": "ord:err"}
		renameRefs(c, ren)
		c.Meta["colon"] = 1
	}
	nestEvents(d, c)
	return c
}

// renameRefs renames event references everywhere in a case: definitions of catch / throw / boundary events, declared
// signals, messages, escalations and errors, and the event plan.
func renameRefs(c *ProcCase, ren map[string]string) {
	defs := c.Prog.Defs
	for _, g := range defs.Procs {
		for _, n := range g.allNodes() {
			for i := range n.Events {
				if nw, ok := ren[n.Events[i].Ref]; ok {
					n.Events[i].Ref = nw
				}
			}
		}
	}
	for _, l := range []*[]string{&defs.Signals, &defs.Messages, &defs.Escalations, &defs.Errors} {
		for i, v := range *l {
			if nw, ok := ren[v]; ok {
				(*l)[i] = nw
			}
		}
	}
	for i := range c.Events {
		if nw, ok := ren[c.Events[i].Ref]; ok {
			c.Events[i].Ref = nw
		}
	}
}

func checkC14(cc Case, r *simrt.Result) *Outcome {
	c := cc.(*ProcCase)
	o := &Outcome{}
	var vl vlist
	genericRunViolations("C14", r, &vl)
	for _, p := range r.Panics {
		vl.add("C14/panic", "%s", p)
	}
	eventCallsReturned("C14", c, &vl)
	tg := CheckTokenGame("C14", c.Prog, c.env.L.E)
	for _, v := range tg.Viol {
		if c.Meta["bare"] == 1 && (v.Clause == "C14/complete-early" || v.Clause == "C14/cease-early") {
			// Nothing follows the catch event here, and the reference model lets a relaxed (parallel-multiple)
			// catch go only when the observer has logged its LeaveTrace: the completion, which another
			// goroutine logs, can overtake that entry. The bounds below still hold the firing to the history.
			if n := findN(c.Prog.Defs.Procs[0], "CM"); n != nil && n.Relaxed {
				continue
			}
		}
		vl.v = append(vl.v, v)
	}
	// counting bounds, from the engine's own traces: EventObservedTrace (the node was listening) and
	// the node's LeaveTrace (it fired)
	cm := findN(c.Prog.Defs.Procs[0], "CM")
	matches := make([]int, len(cm.Events))
	fires := 0
	var pendingEv [][2]string
	oneAtATimeOff := false // events from their own goroutines or in bursts: deliveries and observations cannot be paired
	for _, ep := range c.Events {
		if ep.Own || ep.Burst > 0 {
			oneAtATimeOff = true
		}
	}
	for _, ev := range c.env.L.E {
		switch ev.Kind {
		case "ev":
			pendingEv = append(pendingEv, [2]string{ev.A, ev.B})
		case "t:eventobserved":
			if ev.A == "CM" && len(pendingEv) == 0 && !oneAtATimeOff {
				vl.add("C14/observed-without-delivery", "step %d: the catch event observed an event although none has been delivered since the last one it observed: one delivery reached it twice", ev.Step)
			}
			if ev.A == "CM" && len(pendingEv) > 0 {
				e := pendingEv[0]
				pendingEv = pendingEv[1:]
				for i, dff := range cm.Events {
					if dff.Kind == e[0] && dff.Ref == e[1] {
						matches[i]++
						break
					}
				}
			}
		case "ev-ret":
			// an event that was not observed (nobody listening) leaves the queue when the next one is sent
		case "t:leave":
			if ev.A == "CM" {
				fires++
			}
		}
		if ev.Kind == "ev" && len(pendingEv) > 1 {
			pendingEv = pendingEv[len(pendingEv)-1:]
		}
	}
	concurrent := false
	burst := false
	for _, ep := range c.Events {
		if ep.Own {
			concurrent = true
		}
		if ep.Burst > 0 {
			burst = true
			concurrent = true // the pairing of deliveries and observations below assumes one event at a time
		}
	}
	if cm.Parallel && len(cm.Events) > 1 && len(tg.Viol) == 0 && !concurrent {
		min, max := matches[0], matches[0]
		for _, n := range matches {
			if n < min {
				min = n
			}
			if n > max {
				max = n
			}
		}
		if fires > min {
			vl.add("C14/fired-too-often", "parallel-multiple catch fired %d time(s) although its least-matched definition was matched only %d time(s) while it listened (matches per definition: %v)", fires, min, matches)
		}
		if min == max && fires != min {
			vl.add("C14/miscounted", "every definition was matched exactly %d time(s) while the catch listened, it fired %d time(s)", min, fires)
		}
	}
	// sequential cross-check of the satisfier objects over the same history (no schedule involved)
	if msg := satisfierCrossCheck(c, cm); msg != "" {
		vl.add("C14/satisfier", "%s", msg)
	}
	o.Viol = vl.v
	o.Nontrivial = r.Switches > 0 && len(c.Events) > 0
	probe(o, "parallel-multiple", cm.Parallel && len(cm.Events) > 1)
	probe(o, "fired", fires > 0)
	probe(o, "re-armed", fires > 1)
	probe(o, "concurrent-deliveries", concurrent && !burst)
	probe(o, "burst-behind-a-stalled-node", burst)
	probe(o, "process-without-activities", c.Meta["bare"] == 1)
	probe(o, "escalation-and-error-definitions-among-them", c.Meta["esc"] == 1)
	probe(o, "references-that-share-what-follows-a-colon", c.Meta["colon"] == 1)
	probe(o, "a-signal-and-a-message-of-the-same-name", c.Meta["sameName"] == 1)
	probe(o, "event-nodes-inside-sub-process", c.Meta["nested"] > 0)
	o.Sample = map[string]any{"program": c.Prog.Desc, "matches_per_definition": matches, "fires": fires}
	return o
}

func init() {
	Props["C14"] = &Scenario{Gen: genC14, Check: checkC14, Once: enumerateSatisfiers}
}

// ---------- C06: event-based gateway: exactly one alternative wins and the instance completes ----------

func genC06(d *Draw) Case {
	defs := &Definitions{}
	g := &Graph{ID: "P1", Executable: true}
	defs.Procs = []*Graph{g}
	defs.Signals = []string{"s1", "s2", "sX"}
	defs.Messages = []string{"m1", "mX"}
	alts := []EventDef{{Kind: "signal", Ref: "s1"}, {Kind: "message", Ref: "m1"}, {Kind: "signal", Ref: "s2"}}
	na := 2 + d.N(2)
	g.addNode(&Node{ID: "Start", Kind: "start"})
	cur := "Start"
	if d.Bool() {
		g.addNode(&Node{ID: "T0", Kind: "task", Results: []string{"r_T0"}})
		g.connect(defs, cur, "T0", nil, -1)
		cur = "T0"
	}
	acts := 1
	if d.N(3) == 2 {
		acts = 2 + d.N(2) // the gateway is re-entered through a loop
	}
	if acts > 1 {
		g.addNode(&Node{ID: "LM", Kind: "xor"})
		g.connect(defs, cur, "LM", nil, -1)
		cur = "LM"
		g.addNode(&Node{ID: "XM", Kind: "xor"})
	}
	g.addNode(&Node{ID: "EG", Kind: "evgw"})
	// two tokens behind the same gateway at the same time: a parallel fork whose flows both lead into it
	// (one of them optionally through a task, so that the second token may arrive after the first event)
	two := acts == 1 && d.N(4) == 3
	if two {
		g.addNode(&Node{ID: "AF", Kind: "and"})
		g.connect(defs, cur, "AF", nil, -1)
		g.connect(defs, "AF", "EG", nil, -1)
		if d.Bool() {
			g.addNode(&Node{ID: "TA", Kind: "task", Results: []string{"r_TA"}})
			g.connect(defs, "AF", "TA", nil, -1)
			g.connect(defs, "TA", "EG", nil, -1)
		} else {
			g.connect(defs, "AF", "EG", nil, -1)
		}
	} else {
		g.connect(defs, cur, "EG", nil, -1)
	}
	// the last alternative may be a timer (the classic use of the gateway: an event, or else a time-out); the
	// instance's timers run on a mock clock that the event plan advances at quiescent moments
	timerAlt := acts == 1 && !two && d.N(4) == 3
	if timerAlt {
		alts = append([]EventDef{}, alts...)
		alts[na-1] = EventDef{Kind: "timer", Ref: "tm", Timer: "D:PT5S"}
	}
	tail := acts == 1 && !two && !timerAlt && d.N(4) == 3
	for i := 0; i < na; i++ {
		c := g.addNode(&Node{ID: fmt.Sprintf("C%d", i+1), Kind: "catch", Events: []EventDef{alts[i]}})
		t := g.addNode(&Node{ID: fmt.Sprintf("T%d", i+1), Kind: "task", Results: []string{fmt.Sprintf("r_T%d", i+1)}})
		g.connect(defs, "EG", c.ID, nil, -1)
		g.connect(defs, c.ID, t.ID, nil, -1)
		if tail && acts == 1 {
			// behind the branch's task another catch event waits for the event of the NEXT alternative: a later
			// delivery of a losing event has no effect on the withdrawn alternative, but it does reach this listener
			nx := alts[(i+1)%na]
			l := g.addNode(&Node{ID: fmt.Sprintf("L%d", i+1), Kind: "catch", Events: []EventDef{nx}})
			tl := g.addNode(&Node{ID: fmt.Sprintf("TL%d", i+1), Kind: "task", Results: []string{fmt.Sprintf("r_TL%d", i+1)}})
			g.connect(defs, t.ID, l.ID, nil, -1)
			g.connect(defs, l.ID, tl.ID, nil, -1)
			e := g.addNode(&Node{ID: fmt.Sprintf("E%d", i+1), Kind: "end"})
			g.connect(defs, tl.ID, e.ID, nil, -1)
			continue
		}
		if acts > 1 {
			g.connect(defs, t.ID, "XM", nil, -1)
		} else {
			e := g.addNode(&Node{ID: fmt.Sprintf("E%d", i+1), Kind: "end"})
			g.connect(defs, t.ID, e.ID, nil, -1)
		}
	}
	if acts > 1 {
		tc := g.addNode(&Node{ID: "TC", Kind: "task", Results: []string{"r_TC", "i_TC"}, Counter: "i_TC"})
		g.connect(defs, "XM", tc.ID, nil, -1)
		g.addNode(&Node{ID: "LS", Kind: "xor"})
		g.connect(defs, "TC", "LS", nil, -1)
		g.connect(defs, "LS", "LM", &Cond{LtVar: "i_TC", Lt: acts}, -1)
		g.addNode(&Node{ID: "End", Kind: "end"})
		df := g.connect(defs, "LS", "End", nil, -1)
		g.Node("LS").Default = df.ID
	}
	g.index()
	c := &ProcCase{Buf: d.N(17), Hold: d.N(3)}
	// event plan: a non-empty sequence over the competing events (plus an occasional stranger)
	ne := 1 + d.N(4) + 2*(acts-1)
	conc := d.N(3) == 2 && acts == 1 && !two && !timerAlt && !tail
	if tail {
		ne += 3
	}
	if two {
		ne += 2
	}
	var evd []string
	pool := append(append([]EventDef{}, alts[:na]...), EventDef{Kind: "signal", Ref: "sX"})
	for i := 0; i < ne; i++ {
		e := pool[d.N(len(pool))]
		if i == 0 {
			e = alts[d.N(na)] // the first one is always a real competitor
		}
		ep := EvPlan{Kind: e.Kind, Ref: e.Ref}
		if e.Kind == "timer" {
			// the timer's turn: the clock moves - not far enough (2s of 5s) or past the due time (the second jump)
			ep = EvPlan{Kind: "clock", Ref: []string{"2s", "4s", "7s"}[d.N(3)]}
			e.Ref = "clock+" + ep.Ref
		}
		if conc {
			// delivered from separate goroutines at the same moment: once the gateway has armed its alternatives
			ep.Own = true
			ep.After = 0
			ep.WhenListening = na
		}
		c.Events = append(c.Events, ep)
		evd = append(evd, e.Ref)
	}
	tags := []string{}
	if conc {
		tags = append(tags, "concurrent-events")
	}
	if conc && d.Bool() {
		// the events race with the arming of the gateway: each is delivered the moment a drawn number of
		// alternatives (0..na) has reported that it listens, so it can meet alternatives whose flows exist but
		// do not wait yet. An event may then legitimately be lost (nobody listened yet), so the first
		// competitor is delivered once more when everything is at rest - only that one: the losers' events
		// stay away, they must be withdrawn by the winner and not by their own event
		tags = append(tags, "events-race-with-arming")
		for i := range c.Events {
			c.Events[i].Prompt = true
			c.Events[i].WhenListening = d.N(na + 1)
		}
		c.Events = append(c.Events, EvPlan{Kind: c.Events[0].Kind, Ref: c.Events[0].Ref, Last: true})
		evd = append(evd, c.Events[0].Ref+"(again, at rest)")
	}
	c.Prog = &Program{Defs: defs, Vars: map[string]any{}, Tags: tags, Desc: fmt.Sprintf("event gateway with %d alternatives %v, events %v concurrent=%v", na, alts[:na], evd, conc)}
	c.Picks = drawPicks(d, 32)
	c.Meta = map[string]int{"conc": b2i(conc), "na": na, "acts": acts, "two": b2i(two), "timerAlt": b2i(timerAlt), "tail": b2i(tail)}
	if timerAlt {
		c.MockTimers = true
		// in the end the clock certainly passes the due time: if no event won before, the time-out does
		c.Events = append(c.Events, EvPlan{Kind: "clock", Ref: "9s", Last: true})
		c.Prog.Desc += " [last alternative: timer PT5S on a mock clock]"
	}
	if two {
		c.Prog.Tags = append(c.Prog.Tags, "two-tokens-at-the-gateway")
		c.Prog.Desc += " two tokens (parallel fork in front of the gateway)"
	}
	nestEvents(d, c)
	return c
}

func checkC06(cc Case, r *simrt.Result) *Outcome {
	c := cc.(*ProcCase)
	o := &Outcome{}
	var vl vlist
	genericRunViolations("C06", r, &vl)
	for _, p := range r.Panics {
		vl.add("C06/panic", "%s", p)
	}
	eventCallsReturned("C06", c, &vl)
	na := c.Meta["na"]
	if c.Meta["conc"] == 0 {
		tg := CheckTokenGame("C06", c.Prog, c.env.L.E)
		vl.v = append(vl.v, tg.Viol...)
	}
	// schedule-independent clauses, straight from the trace stream
	det := 0
	branchReq := map[string]int{}
	delivered := map[string]bool{}
	deliveredArmed := map[string]bool{} // delivered after every alternative had reported that it listens
	listening := 0
	complete := false
	quiesced := false
	termAt := map[string]int{}
	var mockNow time.Duration
	for _, ev := range c.env.L.E {
		switch ev.Kind {
		case "t:determination":
			det++
		case "t:task":
			if ev.A != "T0" && ev.A != "TA" {
				branchReq[ev.A]++
			}
		case "t:listening":
			listening++
		case "ev", "rev":
			delivered[ev.A+":"+ev.B] = true
			if listening >= na {
				deliveredArmed[ev.A+":"+ev.B] = true
			}
		case "clock-advance":
			if dur, err := time.ParseDuration(ev.A); err == nil {
				before := mockNow
				mockNow += dur
				if before < 5*time.Second && mockNow >= 5*time.Second {
					delivered["timer:tm"] = true
					if listening >= na {
						deliveredArmed["timer:tm"] = true
					}
				}
			}
		case "t:term":
			termAt[ev.A]++
		case "complete":
			if ev.A == "true" && !quiesced {
				complete = true
			}
		case "quiescent":
			quiesced = true
		}
	}
	g := c.Prog.Defs.Procs[0]
	anyCompetitor := false
	for i := 1; i <= na; i++ {
		dff := findN(g, fmt.Sprintf("C%d", i)).Events[0]
		if deliveredArmed[dff.Kind+":"+dff.Ref] {
			anyCompetitor = true
		}
	}
	if quiesced && c.Meta["acts"] <= 1 && c.Meta["two"] == 0 {
		total := 0
		for k, n := range branchReq {
			idx := 0
			if _, err := fmt.Sscanf(k, "T%d", &idx); err != nil || k != fmt.Sprintf("T%d", idx) {
				continue // (a task further down a branch, behind a later catch event)
			}
			total += n
			if idx >= 1 && idx <= na {
				dff := findN(g, fmt.Sprintf("C%d", idx)).Events[0]
				if !delivered[dff.Kind+":"+dff.Ref] {
					vl.add("C06/branch-without-event", "branch task %s was requested although its event %s was never delivered", k, dff.Ref)
				}
			}
		}
		if total > 1 {
			vl.add("C06/several-winners", "%d branch tasks were requested after the event-based gateway (%v): exactly one alternative may win", total, branchReq)
		}
		if det > 1 {
			vl.add("C06/several-determinations", "DeterminationMadeTrace seen %d times", det)
		}
		if anyCompetitor {
			if total == 0 {
				vl.add("C06/no-winner", "a competing event was delivered while the gateway was armed but no branch continued (determinations=%d)", det)
			}
			if total == 1 && !complete && c.Meta["tail"] == 0 {
				vl.add("C06/not-complete", "one alternative won and its task was answered, but the instance did not complete: withdrawn alternatives keep it alive (terminations seen: %v)", termAt)
			}
		}
	}
	o.Viol = vl.v
	o.Tags = c.Prog.Tags
	o.Nontrivial = r.Switches > 0
	probe(o, "concurrent-delivery", c.Meta["conc"] == 1)
	probe(o, "events-race-with-arming", hasTag(c.Prog.Tags, "events-race-with-arming"))
	probe(o, "gateway-re-entered", c.Meta["acts"] > 1 && det > 1)
	probe(o, "two-tokens-at-the-gateway", c.Meta["two"] == 1)
	probe(o, "timer-among-the-alternatives", c.Meta["timerAlt"] == 1)
	probe(o, "a-later-catch-event-listens-for-a-losing-alternative's-event", c.Meta["tail"] == 1)
	probe(o, "the-later-catch-event-got-the-losing-event", c.Meta["tail"] == 1 && (branchReq["TL1"]+branchReq["TL2"]+branchReq["TL3"]) > 0)
	probe(o, "timer-alternative-won", c.Meta["timerAlt"] == 1 && branchReq[fmt.Sprintf("T%d", na)] > 0)
	probe(o, "event-nodes-inside-sub-process", c.Meta["nested"] > 0)
	probe(o, "two-tokens-at-the-gateway-both-continued", c.Meta["two"] == 1 && det > 1)
	probe(o, "several-competitors-delivered", func() bool {
		n := 0
		for i := 1; i <= na; i++ {
			dff := findN(g, fmt.Sprintf("C%d", i)).Events[0]
			if delivered[dff.Kind+":"+dff.Ref] {
				n++
			}
		}
		return n > 1
	}())
	o.Sample = map[string]any{"program": c.Prog.Desc, "branch_requests": branchReq, "determinations": det}
	return o
}

func init() {
	Props["C06"] = &Scenario{Gen: genC06, Check: checkC06}
}

// ---------- C10: boundary events ----------

func genC10(d *Draw) Case {
	defs := &Definitions{}
	g := &Graph{ID: "P1", Executable: true}
	defs.Procs = []*Graph{g}
	defs.Signals = []string{"sB1", "sB2", "sX"}
	g.addNode(&Node{ID: "Start", Kind: "start"})
	cur := "Start"
	pre := d.N(3) == 2
	if pre {
		g.addNode(&Node{ID: "T0", Kind: "task", Results: []string{"r_T0"}})
		g.connect(defs, cur, "T0", nil, -1)
		cur = "T0"
	}
	two := d.N(4) == 3 // two tokens wait inside the host at the same time
	if two {
		g.addNode(&Node{ID: "F", Kind: "and"})
		g.connect(defs, cur, "F", nil, -1)
		cur = "F"
	}
	subHost := !two && d.N(4) == 3
	if subHost {
		// the host is an embedded sub-process whose inner task plays the role of "the host's answer"
		sg := &Graph{ID: "HG"}
		g.addNode(&Node{ID: "H", Kind: "sub", Sub: sg})
		sg.addNode(&Node{ID: "HS", Kind: "start"})
		sg.addNode(&Node{ID: "HT", Kind: "task", Results: []string{"r_HT"}})
		sg.connect(defs, "HS", "HT", nil, -1)
		sg.addNode(&Node{ID: "HE", Kind: "end"})
		sg.connect(defs, "HT", "HE", nil, -1)
	} else {
		g.addNode(&Node{ID: "H", Kind: "task", Results: []string{"r_H"}})
	}
	// the host is entered twice through a loop: its boundary events have to react in the second activation too
	loop := !two && !subHost && d.N(4) == 3
	if loop {
		g.addNode(&Node{ID: "LM", Kind: "xor"})
		g.connect(defs, cur, "LM", nil, -1)
		cur = "LM"
	}
	g.connect(defs, cur, "H", nil, -1)
	if two {
		g.connect(defs, "F", "H", nil, -1)
	}
	if loop {
		g.addNode(&Node{ID: "N", Kind: "task", Results: []string{"r_N", "i_N"}, Counter: "i_N"})
		g.connect(defs, "H", "N", nil, -1)
		g.addNode(&Node{ID: "LS", Kind: "xor"})
		g.connect(defs, "N", "LS", nil, -1)
		g.connect(defs, "LS", "LM", &Cond{LtVar: "i_N", Lt: 2}, -1)
		g.addNode(&Node{ID: "EN", Kind: "end"})
		df := g.connect(defs, "LS", "EN", nil, -1)
		g.Node("LS").Default = df.ID
	} else {
		g.addNode(&Node{ID: "N", Kind: "task", Results: []string{"r_N"}})
		g.connect(defs, "H", "N", nil, -1)
		g.addNode(&Node{ID: "EN", Kind: "end"})
		g.connect(defs, "N", "EN", nil, -1)
	}
	nb := 1 + d.N(2)
	tags := map[string]bool{}
	for i := 1; i <= nb; i++ {
		b := g.addNode(&Node{ID: fmt.Sprintf("B%d", i), Kind: "boundary", Attached: "H", Interrupting: !loop && d.N(3) == 2,
			Events: []EventDef{{Kind: "signal", Ref: fmt.Sprintf("sB%d", i)}}})
		x := g.addNode(&Node{ID: fmt.Sprintf("X%d", i), Kind: "task", Results: []string{fmt.Sprintf("r_X%d", i)}})
		e := g.addNode(&Node{ID: fmt.Sprintf("EX%d", i), Kind: "end"})
		g.connect(defs, b.ID, x.ID, nil, -1)
		g.connect(defs, x.ID, e.ID, nil, -1)
		if b.Interrupting {
			tags["interrupting"] = true
		}
	}
	g.index()
	c := &ProcCase{Buf: d.N(17), Hold: 2}
	// plan: events interleaved with the host's answer; H is answered only when the coordinator picks it
	ne := d.N(5)
	pool := []string{"sB1", "sB2", "sX"}
	fired := map[string]int{}
	var evd []string
	for i := 0; i < ne; i++ {
		ref := pool[d.N(nb+1)]
		if ref == "sB2" && nb < 2 {
			ref = "sX"
		}
		ep := EvPlan{Kind: "signal", Ref: ref}
		if d.N(4) == 3 {
			ep.ThenAnswer = true // the very next client action is the host's answer, without waiting for quiescence
		}
		c.Events = append(c.Events, ep)
		evd = append(evd, ref)
		fired[ref]++
	}
	if d.N(3) != 0 {
		// the stratum free of known findings: every boundary event gets its event (exactly once)
		for i := 1; i <= nb; i++ {
			ref := fmt.Sprintf("sB%d", i)
			if fired[ref] == 0 {
				ep := EvPlan{Kind: "signal", Ref: ref, ThenAnswer: d.N(3) == 2}
				c.Events = append(c.Events, ep)
				evd = append(evd, ref)
				fired[ref]++
			}
		}
	}
	burst := len(c.Events) >= 2 && d.N(3) == 2
	if burst {
		// the whole plan back to back (sequentially or from separate goroutines), not one event per quiescent moment
		c.Events[0].Burst = len(c.Events) - 1
		c.Events[0].BurstConc = d.Bool()
		for i := range c.Events {
			c.Events[i].ThenAnswer = false
		}
	}
	for i := 1; i <= nb; i++ {
		n := fired[fmt.Sprintf("sB%d", i)]
		if n == 0 {
			tags["unfired-boundary"] = true
		}
		if n > 1 {
			tags["repeated-boundary-event"] = true
		}
	}
	if pre || two {
		// events may arrive before the host is active / with two tokens inside: exactness needs care
	}
	var tl []string
	for t := range tags {
		tl = append(tl, t)
	}
	c.Prog = &Program{Defs: defs, Vars: map[string]any{}, Tags: tl, Desc: fmt.Sprintf("host H (sub-process=%v) with %d boundary event(s), pre-task=%v two-tokens=%v loop=%v, events %v burst=%v", subHost, nb, pre, two, loop, evd, burst)}
	c.Picks = drawPicks(d, 32)
	c.Meta = map[string]int{"two": b2i(two), "nb": nb, "subhost": b2i(subHost), "loop": b2i(loop), "burst": b2i(burst)}
	// the kind of each boundary event's definition: signal, message, escalation or error (the reference keeps its name)
	for i := 1; i <= nb; i++ {
		kind := []string{"signal", "signal", "message", "escalation", "error"}[d.N(5)]
		if kind == "signal" {
			continue
		}
		ref := fmt.Sprintf("sB%d", i)
		for _, n := range g.allNodes() {
			if n.Kind == "boundary" && len(n.Events) == 1 && n.Events[0].Ref == ref {
				n.Events[0].Kind = kind
			}
		}
		for k := range c.Events {
			if c.Events[k].Ref == ref {
				c.Events[k].Kind = kind
			}
		}
		var sig []string
		for _, sname := range defs.Signals {
			if sname != ref {
				sig = append(sig, sname)
			}
		}
		defs.Signals = sig
		switch kind {
		case "message":
			defs.Messages = append(defs.Messages, ref)
		case "escalation":
			defs.Escalations = append(defs.Escalations, ref)
		case "error":
			defs.Errors = append(defs.Errors, ref)
		}
		c.Meta["kinds"] = 1
	}
	if !subHost && !two && !loop && !pre && d.N(6) == 5 {
		// the event comes the moment the client sees the request of the task behind the host - the host has completed -
		// while a slow subscriber holds the tracer (and whatever the engine still has to say about the host) up: it
		// must find the boundary events switched off
		var first EvPlan
		for _, n := range g.allNodes() {
			if n.Kind == "boundary" && len(n.Events) == 1 && n.Events[0].Ref == "sB1" {
				first = EvPlan{Kind: n.Events[0].Kind, Ref: "sB1"}
			}
		}
		first.Own, first.Exact = true, true
		c.ExtraObs = 1
		c.SlowAll = true
		c.Hold = d.N(3)
		if d.Bool() {
			first.Prompt, first.AfterTask = true, "N"
			c.SlowObsMs = 1 + d.N(3)
			c.Prog.Desc += " [only event: sB1 the moment N's request is seen, behind a slow subscriber]"
		} else {
			// ... or a little after the host's answer was taken, while a subscriber that pauses for a long time per
			// trace keeps the tracer (and whatever the engine still has to say about the host) stuck
			first.AfterAnswer, first.DelayMs = "H", 1+d.N(5)
			c.SlowObsMs = 40 + 20*d.N(4)
			c.Hold = 2
			// a burst of events that match nothing fills the way from the engine to the slow subscriber (every one of
			// them is reported by the listening boundary event); the host is answered right behind the burst
			nf := 8 + d.N(16)
			var fill []EvPlan
			for i := 0; i < nf; i++ {
				fill = append(fill, EvPlan{Kind: "signal", Ref: "sX"})
			}
			fill[0].First, fill[0].Burst = true, nf-1
			fill[nf-1].ThenAnswer = true
			c.Events = append(fill, first)
			c.Prog.Desc += fmt.Sprintf(" [a burst of %d strangers, H answered right behind it, sB1 %d ms after H's answer; a subscriber pausing %d ms per trace]", nf, first.DelayMs, c.SlowObsMs)
			c.Meta["lateEvent"] = 2
			nestEvents(d, c)
			return c
		}
		c.Events = []EvPlan{first}
		c.Meta["lateEvent"] = 1
		nestEvents(d, c)
		return c
	}
	nestEvents(d, c)
	if !subHost && !two && d.N(3) == 2 {
		// the host's answer carries an error: without handler or with a skip decision the token leaves the host
		// over its normal flow, with an exit decision it ends there, with a retry decision the host is requested
		// again and keeps waiting - and its boundary events must react exactly as long as it waits
		var script []AnswerSpec
		desc := ""
		switch d.N(4) {
		case 0:
			script = []AnswerSpec{{Mode: "err"}}
			desc = "error without handler"
		case 1:
			script = []AnswerSpec{{Mode: "skip", LateHandler: d.N(3) == 2}}
			desc = "error, skip"
		case 2:
			script = []AnswerSpec{{Mode: "exit", LateHandler: d.N(3) == 2}}
			desc = "error, exit"
		case 3:
			n := 1 + d.N(2)
			for k := 0; k < n; k++ {
				script = append(script, AnswerSpec{Mode: "retry", Retries: n})
			}
			desc = fmt.Sprintf("error, retry(%d), then success", n)
			c.Meta["hostretry"] = 1
		}
		c.Scripts = map[string][]AnswerSpec{"H": script}
		c.Prog.Desc += " [host answered: " + desc + "]"
		c.Prog.Tags = append(c.Prog.Tags, "host-answered-with-error")
		c.Meta["hosterr"] = 1
	}
	return c
}

func checkC10(cc Case, r *simrt.Result) *Outcome {
	c := cc.(*ProcCase)
	o := &Outcome{}
	var vl vlist
	genericRunViolations("C10", r, &vl)
	for _, p := range r.Panics {
		vl.add("C10/panic", "%s", p)
	}
	eventCallsReturned("C10", c, &vl)
	tg := CheckTokenGame("C10", c.Prog, c.env.L.E)
	vl.v = append(vl.v, tg.Viol...)
	o.Viol = vl.v
	o.Tags = append([]string{}, c.Prog.Tags...)
	// dynamic tags for the known findings: what actually happened in this run
	hostAnswered := false
	intrFired := false
	hReq, hAns := 0, 0
	partial := false
	firedSecond := false
	for _, ev := range c.env.L.E {
		switch {
		case ev.Kind == "t:task" && ev.A == "H":
			hReq++
		case ev.Kind == "ans" && ev.A == "H":
			hostAnswered = true
			hAns++
		case ev.Kind == "ev" && strings.HasPrefix(ev.B, "sB"):
			if hAns >= 1 && hReq > hAns {
				if c.Meta["two"] == 1 {
					partial = true // one of two tokens inside the host has left
				} else {
					firedSecond = true // (loop) the host waits a second time
				}
			}
		}
	}
	g := c.Prog.Defs.Procs[0]
	for id, n := range tg.M.Fired {
		if b := findN(g, id); b != nil && b.Kind == "boundary" && b.Interrupting && n > 0 {
			intrFired = true
		}
	}
	if intrFired {
		o.Tags = append(o.Tags, "interrupting-fired")
	}
	o.Tags = o.Tags[:0]
	if intrFired {
		o.Tags = append(o.Tags, "interrupting-fired")
	}
	if partial {
		o.Tags = append(o.Tags, "event-after-one-of-two-tokens-left")
	}
	if c.Meta["hostretry"] == 1 {
		o.Tags = append(o.Tags, "host-answered-retry")
	}
	if c.Meta["nested"] > 0 {
		o.Tags = append(o.Tags, "body-in-sub-process")
	}
	for _, b := range g.allNodes() {
		if b.Kind != "boundary" {
			continue
		}
		if tg.M.Fired[b.ID] == 0 {
			o.Tags = append(o.Tags, "unfired-boundary")
		}
		if !b.Interrupting && tg.M.Fired[b.ID] > 1 {
			o.Tags = append(o.Tags, "boundary-fired-twice")
		}
	}
	_ = hostAnswered
	o.Nontrivial = r.Switches > 0 && len(c.Events) > 0
	fired := 0
	for _, n := range tg.M.Fired {
		fired += n
	}
	probe(o, "boundary-fired", fired > 0)
	probe(o, "interrupting-fired", intrFired)
	probe(o, "two-tokens-in-host", c.Meta["two"] == 1)
	probe(o, "sub-process-host", c.Meta["subhost"] == 1)
	probe(o, "message-escalation-or-error-boundary-events", c.Meta["kinds"] == 1)
	probe(o, "event-nodes-inside-sub-process", c.Meta["nested"] > 0)
	probe(o, "host-answered-with-error", c.Meta["hosterr"] == 1)
	probe(o, "event-right-after-the-host-completed-behind-a-slow-subscriber", c.Meta["lateEvent"] == 1)
	probe(o, "event-right-after-the-host's-answer-tracer-stuck-behind-a-subscriber", c.Meta["lateEvent"] == 2)
	probe(o, "host-re-entered-through-loop", c.Meta["loop"] == 1)
	probe(o, "event-burst", c.Meta["burst"] == 1)
	probe(o, "clean-stratum-run", len(o.Tags) == 0 && fired > 0)
	probe(o, "clean-loop-run-fired-in-second-activation", len(o.Tags) == 0 && c.Meta["loop"] == 1 && firedSecond)
	probe(o, "clean-burst-run-two-boundaries-fired", len(o.Tags) == 0 && c.Meta["burst"] == 1 && fired >= 2)
	probe(o, "event-dropped-host-not-active", tg.M.Dropped > 0)
	o.Sample = map[string]any{"program": c.Prog.Desc, "requests": tg.Requests, "tags": o.Tags}
	return o
}

func init() {
	Props["C10"] = &Scenario{Gen: genC10, Check: checkC10}
}
