package zzverif

import (
	"fmt"
	"sort"
	"strings"

	"verif/sim/simrt"
)

// Draw wraps the generation tape. Value 0 is always the simplest option.
type Draw struct{ T simrt.Tape }

func (d *Draw) N(n int) int {
	if n <= 1 {
		return 0
	}
	return d.T.Choose("gen", n) % n
}
func (d *Draw) Bool() bool { return d.N(2) == 1 }

// ProgOpts bounds the program generator.
type ProgOpts struct {
	Kinds    []string // allowed composite kinds: seq xor and or loop condtask sub
	MaxDepth int
	MaxTasks int
	XPath    bool // allow XPath conditions
	OrEarlyEnd bool // allow inclusive branches that end in their own end event
	StuckXor bool // allow exclusive gateways with no default and possibly no true condition
	ActivityDefault bool // allow default flows on activities
	DataConds bool // conditions may read boolean results written by tasks that certainly ran before (also by other tokens: sub-process content, joined parallel branches)
	Fuse          bool // a join followed directly by a fork of the same kind may be drawn as one gateway that joins and forks at once
	EmptyBranches bool // parallel and inclusive blocks may have branches without any activity (a flow straight from the fork to the join)
	SubInLoop bool // allow sub-processes inside loops (always on since the re-entry repair; the tag is kept as a reach probe)
	ForkInOr bool // allow forking blocks inside inclusive branches (known-finding trigger)
	OrInAnd bool // allow inclusive joins inside parallel branches (known-finding trigger)
	Wrap    bool // C12: wrap blocks in 1..3 levels of embedded sub-process
	Flatten bool // C12: consume the same draws but splice the content in place (the inlined twin)
	ActivityMultiFork bool // allow several true conditional flows leaving an activity (known-finding trigger)
	Throws    bool // an intermediate throw event (without definition, or with a signal definition) may stand in front of an activity: a node a token just passes
	StartFork bool // start events (of the process and of sub-processes) may have a second outgoing flow: an implicit fork right at the start event
}

type progGen struct {
	d     *Draw
	defs  *Definitions
	opts  ProgOpts
	vars  map[string]any
	tasks int
	desc  strings.Builder
	tags  map[string]bool
	inLoop int
	inOr  int
	inAnd int
	nwrap int
	wrapped int
	written map[string]bool
	dataConds int
	hint  string   // (Fuse) the kind of the join the previous sibling block ended in: the next block may start with a fork of that kind
	avail []string // boolean result variables that are certainly written before the current point (and not by a concurrent branch)
}

// setHint notes, when joins and forks may be fused, that the block drawn last ended in a join gateway.
func (pg *progGen) setHint(g *Graph, last string) {
	pg.hint = ""
	if !pg.opts.Fuse {
		return
	}
	if n := g.Node(last); n != nil && len(n.In) >= 2 && (n.Kind == "xor" || n.Kind == "and" || n.Kind == "or") {
		pg.hint = n.Kind
	}
}

func (pg *progGen) newTask(g *Graph) *Node {
	pg.tasks++
	id := pg.defs.fresh("T")
	n := &Node{ID: id, Kind: "task", TaskKind: taskTags[pg.d.N(len(taskTags))], Results: []string{"r_" + id}}
	if pg.opts.DataConds && pg.d.Bool() {
		v := "ok_" + id
		n.Results = append(n.Results, v)
		n.Writes = map[string]any{v: pg.d.Bool()}
		pg.avail = append(pg.avail, v)
		pg.written[v] = n.Writes[v].(bool)
	}
	return g.addNode(n)
}

func (pg *progGen) cond() *Cond {
	if pg.opts.DataConds && len(pg.avail) > 0 && pg.d.N(3) != 0 {
		// read what an upstream task wrote
		v := pg.avail[pg.d.N(len(pg.avail))]
		c := &Cond{Var: v, Want: pg.d.Bool()}
		pg.dataConds++
		return c
	}
	v := pg.defs.fresh("c")
	val := pg.d.Bool()
	pg.vars[v] = val
	c := &Cond{Var: v, Want: true}
	if pg.d.N(4) == 3 {
		c.Want = false
	}
	if pg.opts.XPath && pg.d.N(4) == 3 {
		c.Lang = "xpath"
	}
	return c
}

func (pg *progGen) condHolds(c *Cond) bool {
	if c.Const != nil {
		return *c.Const
	}
	if w, ok := pg.written[c.Var]; ok {
		return w == c.Want
	}
	return pg.vars[c.Var] == c.Want
}

// block generates one block, optionally wrapped in 1..3 levels of embedded sub-process (C12). Wrapper
// ids come from their own counter so that the wrapped program and its inlined twin (Flatten) name
// their activities identically.
func (pg *progGen) block(g *Graph, from string, cond *Cond, outPos int, depth int) (exit string, inFlow string) {
	levels := 0
	if pg.opts.Wrap && pg.d.N(3) == 2 {
		levels = 1 + pg.d.N(3)
	}
	if levels == 0 || pg.opts.Flatten {
		return pg.blockInner(g, from, cond, outPos, depth)
	}
	if pg.inLoop > 0 {
		if !pg.opts.SubInLoop {
			return pg.blockInner(g, from, cond, outPos, depth)
		}
		pg.tags["sub-in-loop"] = true
	}
	pg.wrapped += levels
	d := pg.defs
	type level struct {
		g   *Graph // the graph inside the wrapper
		sub *Node  // the wrapper node (lives in the enclosing graph)
	}
	var chain []level
	cur := g
	prev := from
	var firstFlow string
	for l := 0; l < levels; l++ {
		pg.nwrap++
		sg := &Graph{ID: fmt.Sprintf("WG%d", pg.nwrap)}
		s := cur.addNode(&Node{ID: fmt.Sprintf("W%d", pg.nwrap), Kind: "sub", Sub: sg})
		if l == 0 {
			firstFlow = cur.connect(d, prev, s.ID, cond, outPos).ID
		} else {
			cur.connect(d, prev, s.ID, nil, -1)
		}
		st := sg.addNode(&Node{ID: fmt.Sprintf("WS%d", pg.nwrap), Kind: "start"})
		chain = append(chain, level{g: sg, sub: s})
		cur = sg
		prev = st.ID
		fmt.Fprintf(&pg.desc, "sub%s( ", s.ID)
	}
	last, _ := pg.blockInner(cur, prev, nil, -1, depth)
	// close the levels from the inside out: content -> end event; nested wrapper -> end event
	for i := len(chain) - 1; i >= 0; i-- {
		gg := chain[i].g
		e := gg.addNode(&Node{ID: "WE" + strings.TrimPrefix(gg.ID, "WG"), Kind: "end"})
		if i == len(chain)-1 {
			gg.connect(d, last, e.ID, nil, -1)
		} else {
			gg.connect(d, chain[i+1].sub.ID, e.ID, nil, -1)
		}
		pg.desc.WriteString(") ")
	}
	return chain[0].sub.ID, firstFlow
}

// block generates one block after node `from`; the connecting flow carries cond (may be nil) and is
// inserted at outPos of from's outgoing list. It returns the node the next block continues from
// and the id of the connecting flow.
func (pg *progGen) blockInner(g *Graph, from string, cond *Cond, outPos int, depth int) (exit string, inFlow string) {
	kinds := []string{"task"}
	if depth < pg.opts.MaxDepth && pg.tasks < pg.opts.MaxTasks {
		kinds = append(kinds, pg.opts.Kinds...)
	}
	kind := kinds[pg.d.N(len(kinds))]
	if h := pg.hint; h != "" {
		pg.hint = ""
		for _, k := range kinds {
			if k == h && pg.d.Bool() {
				kind = h
			}
		}
	}
	if kind == "sub" && pg.inLoop > 0 {
		if !pg.opts.SubInLoop {
			kind = "task"
		} else {
			pg.tags["sub-in-loop"] = true
		}
	}
	if pg.inOr > 0 && (kind == "and" || kind == "or" || kind == "condtask") {
		if !pg.opts.ForkInOr {
			kind = "task"
		} else {
			pg.tags["fork-in-or"] = true
		}
	}
	if pg.inAnd > 0 && (kind == "or" || kind == "condtask") {
		if !pg.opts.OrInAnd {
			kind = "task"
		} else {
			pg.tags["or-in-and"] = true
		}
	}
	d := pg.defs
	switch kind {
	case "task":
		if pg.opts.Throws && pg.d.N(5) == 4 {
			th := g.addNode(&Node{ID: d.fresh("TH"), Kind: "throw"})
			if pg.d.Bool() {
				th.Events = []EventDef{{Kind: "signal", Ref: "sTH"}}
				has := false
				for _, sg := range d.Signals {
					has = has || sg == "sTH"
				}
				if !has {
					d.Signals = append(d.Signals, "sTH")
				}
			}
			f := g.connect(d, from, th.ID, cond, outPos)
			t := pg.newTask(g)
			g.connect(d, th.ID, t.ID, nil, -1)
			pg.tags["throw-event"] = true
			pg.desc.WriteString(th.ID + ">" + t.ID + " ")
			return t.ID, f.ID
		}
		t := pg.newTask(g)
		f := g.connect(d, from, t.ID, cond, outPos)
		pg.desc.WriteString(t.ID + " ")
		return t.ID, f.ID
	case "seq":
		n := 2 + pg.d.N(2)
		pg.desc.WriteString("seq( ")
		cur, first := pg.block(g, from, cond, outPos, depth+1)
		for i := 1; i < n; i++ {
			pg.setHint(g, cur)
			cur, _ = pg.block(g, cur, nil, -1, depth+1)
		}
		pg.desc.WriteString(") ")
		return cur, first
	case "xor":
		x := g.addNode(&Node{ID: d.fresh("X"), Kind: "xor"})
		f := g.connect(d, from, x.ID, cond, outPos)
		m := g.addNode(&Node{ID: d.fresh("XM"), Kind: "xor"})
		nb := 1 + pg.d.N(3)
		hasDefault := true
		if pg.opts.StuckXor && pg.d.N(4) == 3 {
			hasDefault = false
		}
		defPos := 0
		if hasDefault {
			defPos = pg.d.N(nb + 1)
		}
		fmt.Fprintf(&pg.desc, "xor%s[ ", x.ID)
		ci := 0
		total := nb
		if hasDefault {
			total++
		}
		for pos := 0; pos < total; pos++ {
			var c *Cond
			isDef := hasDefault && pos == defPos
			if !isDef {
				c = pg.cond()
				ci++
				fmt.Fprintf(&pg.desc, "%s=%v: ", c.Var, pg.condHolds(c))
			} else {
				pg.desc.WriteString("default: ")
			}
			var last, ff string
			base := len(pg.avail)
			if pg.d.N(3) == 2 {
				// empty branch: flow straight to the merge
				fl := g.connect(d, x.ID, m.ID, c, -1)
				ff = fl.ID
				pg.desc.WriteString("- ")
			} else {
				last, ff = pg.block(g, x.ID, c, -1, depth+1)
				g.connect(d, last, m.ID, nil, -1)
			}
			pg.avail = pg.avail[:base] // what one branch writes is not certain after the merge
			if isDef {
				x.Default = ff
			}
			pg.desc.WriteString("| ")
		}
		pg.desc.WriteString("] ")
		return m.ID, f.ID
	case "and":
		a := g.addNode(&Node{ID: d.fresh("A"), Kind: "and"})
		f := g.connect(d, from, a.ID, cond, outPos)
		j := g.addNode(&Node{ID: d.fresh("AJ"), Kind: "and"})
		nb := 2 + pg.d.N(2)
		pg.desc.WriteString("and[ ")
		baseAvail := append([]string{}, pg.avail...)
		var added []string
		for i := 0; i < nb; i++ {
			pg.inAnd++
			pg.avail = append([]string{}, baseAvail...) // a sibling branch's writes are concurrent, not upstream
			if pg.opts.EmptyBranches && pg.d.N(4) == 3 {
				g.connect(d, a.ID, j.ID, nil, -1)
				pg.inAnd--
				pg.desc.WriteString("- | ")
				pg.tags["empty-branch"] = true
				continue
			}
			last, _ := pg.block(g, a.ID, nil, -1, depth+1)
			added = append(added, pg.avail[len(baseAvail):]...)
			pg.inAnd--
			g.connect(d, last, j.ID, nil, -1)
			pg.desc.WriteString("| ")
		}
		pg.avail = append(baseAvail, added...) // after the join every branch has certainly run
		pg.desc.WriteString("] ")
		return j.ID, f.ID
	case "or":
		o := g.addNode(&Node{ID: d.fresh("O"), Kind: "or"})
		f := g.connect(d, from, o.ID, cond, outPos)
		j := g.addNode(&Node{ID: d.fresh("OJ"), Kind: "or"})
		nb := 1 + pg.d.N(3)
		hasDefault := pg.d.N(3) != 2
		if !pg.opts.StuckXor {
			hasDefault = true
		}
		total := nb
		if hasDefault {
			total++
		}
		defPos := pg.d.N(total)
		fmt.Fprintf(&pg.desc, "or%s[ ", o.ID)
		joined := 0
		for pos := 0; pos < total; pos++ {
			var c *Cond
			isDef := hasDefault && pos == defPos
			if !isDef {
				c = pg.cond()
				fmt.Fprintf(&pg.desc, "%s=%v: ", c.Var, pg.condHolds(c))
			} else {
				pg.desc.WriteString("default: ")
			}
			if pg.opts.EmptyBranches && pg.d.N(4) == 3 {
				fl := g.connect(d, o.ID, j.ID, c, -1)
				if isDef {
					o.Default = fl.ID
				}
				joined++
				pg.desc.WriteString("- | ")
				pg.tags["empty-branch"] = true
				continue
			}
			pg.inOr++
			baseOr := len(pg.avail)
			last, ff := pg.block(g, o.ID, c, -1, depth+1)
			pg.avail = pg.avail[:baseOr]
			pg.inOr--
			if isDef {
				o.Default = ff
			}
			early := pg.opts.OrEarlyEnd && pg.d.N(4) == 3 && !(pos == total-1 && joined == 0)
			if early {
				e := g.addNode(&Node{ID: d.fresh("E"), Kind: "end"})
				g.connect(d, last, e.ID, nil, -1)
				pg.desc.WriteString("END ")
			} else {
				g.connect(d, last, j.ID, nil, -1)
				joined++
			}
			pg.desc.WriteString("| ")
		}
		pg.desc.WriteString("] ")
		return j.ID, f.ID
	case "loop":
		lm := g.addNode(&Node{ID: d.fresh("LM"), Kind: "xor"})
		f := g.connect(d, from, lm.ID, cond, outPos)
		count := 1 + pg.d.N(3)
		fmt.Fprintf(&pg.desc, "loop*%d( ", count)
		pg.inLoop++
		last, _ := pg.block(g, lm.ID, nil, -1, depth+1)
		pg.inLoop--
		tc := pg.newTask(g)
		iv := "i_" + tc.ID
		tc.Results = append(tc.Results, iv)
		tc.Counter = iv
		g.connect(d, last, tc.ID, nil, -1)
		ls := g.addNode(&Node{ID: d.fresh("LS"), Kind: "xor"})
		g.connect(d, tc.ID, ls.ID, nil, -1)
		lx := g.addNode(&Node{ID: d.fresh("LX"), Kind: "xor"})
		if pg.d.Bool() {
			// the loop is left over a condition and continued over the split's default flow
			df := g.connect(d, ls.ID, lm.ID, nil, -1)
			ls.Default = df.ID
			g.connect(d, ls.ID, lx.ID, &Cond{LtVar: iv, Lt: count, Ge: true}, -1)
		} else {
			g.connect(d, ls.ID, lm.ID, &Cond{LtVar: iv, Lt: count}, -1)
			df := g.connect(d, ls.ID, lx.ID, nil, -1)
			ls.Default = df.ID
		}
		fmt.Fprintf(&pg.desc, "%s ) ", tc.ID)
		return lx.ID, f.ID
	case "condtask":
		saveDC := pg.opts.DataConds
		pg.opts.DataConds = false // the conditions of this block are adjusted after drawing: keep them on initial data
		defer func() { pg.opts.DataConds = saveDC }()
		t := pg.newTask(g)
		f := g.connect(d, from, t.ID, cond, outPos)
		j := g.addNode(&Node{ID: d.fresh("CJ"), Kind: "or"})
		nb := 1 + pg.d.N(3)
		// a default flow on the activity: taken only if no conditional flow holds
		hasDefault := pg.opts.ActivityDefault && pg.d.N(2) == 1
		total := nb
		if hasDefault {
			total++
		}
		defPos := pg.d.N(total)
		fmt.Fprintf(&pg.desc, "condtask%s[ ", t.ID)
		anyTrue := false
		for pos := 0; pos < total; pos++ {
			var c *Cond
			isDef := hasDefault && pos == defPos
			if !isDef {
				c = pg.cond()
				if !hasDefault && pos == total-1 && !anyTrue && !pg.condHolds(c) {
					// without a default at least one condition must hold (otherwise BPMN prescribes an exception)
					pg.vars[c.Var] = c.Want
				}
				if anyTrue && pg.condHolds(c) {
					if pg.opts.ActivityMultiFork {
						pg.tags["activity-multi-fork"] = true
					} else {
						pg.vars[c.Var] = !c.Want
					}
				}
				anyTrue = anyTrue || pg.condHolds(c)
				fmt.Fprintf(&pg.desc, "%s=%v: ", c.Var, pg.condHolds(c))
			} else {
				pg.desc.WriteString("default: ")
			}
			last, ff := pg.block(g, t.ID, c, -1, depth+1)
			if isDef {
				t.Default = ff
				if anyTrue || pos < total-1 {
					pg.tags["activity-default"] = true
				}
			}
			g.connect(d, last, j.ID, nil, -1)
			pg.desc.WriteString("| ")
		}
		pg.desc.WriteString("] ")
		return j.ID, f.ID
	case "sub":
		sg := &Graph{ID: d.fresh("SG")}
		s := g.addNode(&Node{ID: d.fresh("S"), Kind: "sub", Sub: sg})
		f := g.connect(d, from, s.ID, cond, outPos)
		st := sg.addNode(&Node{ID: d.fresh("SS"), Kind: "start"})
		fmt.Fprintf(&pg.desc, "sub%s( ", s.ID)
		pg.startFork(sg, st.ID)
		last, _ := pg.block(sg, st.ID, nil, -1, depth+1)
		e := sg.addNode(&Node{ID: d.fresh("SE"), Kind: "end"})
		sg.connect(d, last, e.ID, nil, -1)
		pg.desc.WriteString(") ")
		return s.ID, f.ID
	}
	panic("unknown kind " + kind)
}

// startFork may give the start event stID a second outgoing flow (listed first or second) to a side task that
// ends on its own: two tokens leave the start event. Not inside inclusive branches or loops (the side token
// would be a fork the inclusive join's known finding is about, or be re-created per iteration).
func (pg *progGen) startFork(g *Graph, stID string) {
	if !pg.opts.StartFork || pg.inOr > 0 || pg.inLoop > 0 || pg.inAnd > 0 || pg.d.N(3) != 2 {
		return
	}
	// the side task runs concurrently with everything else: what it writes is not "certainly written before"
	// any condition, so it offers no variable to the data-dependent conditions
	dc := pg.opts.DataConds
	pg.opts.DataConds = false
	t := pg.newTask(g)
	pg.opts.DataConds = dc
	g.connect(pg.defs, stID, t.ID, nil, -1)
	e := g.addNode(&Node{ID: pg.defs.fresh("SFE"), Kind: "end"})
	g.connect(pg.defs, t.ID, e.ID, nil, -1)
	pg.tags["start-fork"] = true
	fmt.Fprintf(&pg.desc, "startfork(%s) ", t.ID)
}

// Program is a generated single-process program with its initial data.
type Program struct {
	Defs *Definitions   `json:"defs"`
	Vars map[string]any `json:"vars"`
	Desc string         `json:"desc"`
	Tags []string       `json:"tags,omitempty"`
	Objs map[string]any `json:"objs,omitempty"`
	Wrapped int         `json:"wrapped,omitempty"`
	DataConds int       `json:"dataConds,omitempty"`
}

// GenProgram draws a block-structured process.
func GenProgram(d *Draw, opts ProgOpts) *Program {
	opts.SubInLoop = true // (was a known-finding trigger until the sub-process re-entry repair)
	defs := &Definitions{}
	g := &Graph{ID: "P1", Executable: true}
	defs.Procs = []*Graph{g}
	pg := &progGen{d: d, defs: defs, opts: opts, vars: map[string]any{}, tags: map[string]bool{}, written: map[string]bool{}}
	st := g.addNode(&Node{ID: "Start", Kind: "start"})
	pg.startFork(g, st.ID)
	n := 1 + d.N(2)
	cur := st.ID
	for i := 0; i < n; i++ {
		pg.setHint(g, cur)
		cur, _ = pg.block(g, cur, nil, -1, 0)
	}
	e := g.addNode(&Node{ID: "End", Kind: "end"})
	g.connect(defs, cur, e.ID, nil, -1)
	if opts.Fuse && fuseGateways(g, d) {
		pg.tags["fused-gateway"] = true
		pg.desc.WriteString(" [join+fork fused]")
	}
	g.index()
	var tags []string
	for t := range pg.tags {
		tags = append(tags, t)
	}
	sort.Strings(tags)
	return &Program{Defs: defs, Vars: pg.vars, Desc: strings.TrimSpace(pg.desc.String()), Tags: tags, Wrapped: pg.wrapped, DataConds: pg.dataConds}
}

// fuseGateways merges a gateway J that only joins (several incoming flows, one unconditional outgoing flow) with the
// gateway F of the same kind that only forks and follows it directly: J's incoming flows are led into F, which then
// joins and forks at once. BPMN gives both drawings the same meaning. (Applied to the graph and, recursively, to the
// graphs of its sub-processes; every candidate is fused with probability one half.)
func fuseGateways(g *Graph, d *Draw) bool {
	fused := false
	for _, n := range g.Nodes {
		if n.Sub != nil && fuseGateways(n.Sub, d) {
			fused = true
		}
	}
	skip := map[*Node]bool{}
	for {
		g.index()
		var pick *Flow
		for _, f := range g.Flows {
			j, t := g.Node(f.From), g.Node(f.To)
			if j == nil || t == nil || j == t || j.Kind != t.Kind || f.Cond != nil || skip[j] {
				continue
			}
			if j.Kind != "xor" && j.Kind != "and" && j.Kind != "or" {
				continue
			}
			if len(j.Out) != 1 || len(j.In) < 2 || len(t.In) != 1 || len(t.Out) < 2 || j.Default != "" {
				continue
			}
			pick = f
			break
		}
		if pick == nil {
			return fused
		}
		j, t := g.Node(pick.From), g.Node(pick.To)
		if !d.Bool() {
			skip[j] = true // this pair stays as drawn
			continue
		}
		for _, fid := range j.In {
			g.Flow(fid).To = t.ID
		}
		t.In = append([]string{}, j.In...)
		var nodes []*Node
		for _, n := range g.Nodes {
			if n != j {
				nodes = append(nodes, n)
			}
		}
		g.Nodes = nodes
		var flows []*Flow
		for _, fl := range g.Flows {
			if fl != pick {
				flows = append(flows, fl)
			}
		}
		g.Flows = flows
		fused = true
	}
}

// GenBody draws a block-structured body into graph g (which shares defs, so ids are unique across the
// processes of one definitions element): start -> blocks -> end. It returns the initial variables.
func GenBody(d *Draw, defs *Definitions, g *Graph, opts ProgOpts, prefix string) (map[string]any, string) {
	pg := &progGen{d: d, defs: defs, opts: opts, vars: map[string]any{}, tags: map[string]bool{}, written: map[string]bool{}}
	st := g.addNode(&Node{ID: prefix + "_Start", Kind: "start"})
	n := 1 + d.N(2)
	cur := st.ID
	for i := 0; i < n; i++ {
		cur, _ = pg.block(g, cur, nil, -1, 0)
	}
	e := g.addNode(&Node{ID: prefix + "_End", Kind: "end"})
	g.connect(defs, cur, e.ID, nil, -1)
	g.index()
	return pg.vars, strings.TrimSpace(pg.desc.String())
}
