package zzverif

import (
	"fmt"
	"strings"

	"verif/sim/simrt"
)

// ---------- C07: cancelling the context at any point stops the instance and leaks nothing ----------

// genC07Timers: timer catch events (duration, cycle, date) on a mock clock, waiting in parallel with tasks; the
// clock may be advanced so that some fire before the cancel, the others are still armed when it comes.
func genC07Timers(d *Draw) Case {
	defs := &Definitions{}
	g := &Graph{ID: "P1", Executable: true}
	defs.Procs = []*Graph{g}
	g.addNode(&Node{ID: "Start", Kind: "start"})
	cur := "Start"
	if d.Bool() {
		g.addNode(&Node{ID: "T0", Kind: "task", Results: []string{"r_T0"}})
		g.connect(defs, cur, "T0", nil, -1)
		cur = "T0"
	}
	g.addNode(&Node{ID: "F", Kind: "and"})
	g.connect(defs, cur, "F", nil, -1)
	nt := 1 + d.N(2)
	specs := []string{"D:PT10S", "D:PT1H", "C:R2/PT20S", "C:R/PT30S", "T:1970-01-01T00:01:00Z"}
	var used []string
	for i := 1; i <= nt; i++ {
		sp := specs[d.N(len(specs))]
		used = append(used, sp)
		ct := g.addNode(&Node{ID: fmt.Sprintf("CT%d", i), Kind: "catch", Relaxed: true, Events: []EventDef{{Kind: "timer", Timer: sp}}})
		t := g.addNode(&Node{ID: fmt.Sprintf("T%d", i), Kind: "task", Results: []string{fmt.Sprintf("r_T%d", i)}})
		e := g.addNode(&Node{ID: fmt.Sprintf("E%d", i), Kind: "end"})
		g.connect(defs, "F", ct.ID, nil, -1)
		g.connect(defs, ct.ID, t.ID, nil, -1)
		g.connect(defs, t.ID, e.ID, nil, -1)
	}
	if d.Bool() {
		g.addNode(&Node{ID: "TP", Kind: "task", Results: []string{"r_TP"}})
		g.addNode(&Node{ID: "EP", Kind: "end"})
		g.connect(defs, "F", "TP", nil, -1)
		g.connect(defs, "TP", "EP", nil, -1)
	}
	g.index()
	c := &ProcCase{Buf: d.N(17), Hold: d.N(3), MockTimers: true}
	jumps := []string{"5s", "10s", "25s", "61s", "2h"}
	var evd []string
	for i, n := 0, d.N(4); i < n; i++ {
		j := jumps[d.N(len(jumps))]
		c.Events = append(c.Events, EvPlan{Kind: "clock", Ref: j})
		evd = append(evd, "+"+j)
	}
	c.Prog = &Program{Defs: defs, Vars: map[string]any{}, Tags: []string{"timers"}, Desc: fmt.Sprintf("timer catch events %v in parallel, clock jumps %v", used, evd)}
	c.Picks = drawPicks(d, 32)
	return c
}

func genC07(d *Draw) Case {
	// node kinds beyond tasks and gateways: listening catch events, an armed event-based gateway, boundary
	// listeners; the cancellation lands while they wait (or after some of their events arrived)
	if fam := d.N(7); fam >= 2 {
		var inner Case
		switch fam {
		case 6:
			// a process set: several instances, message flows, throws that instantiate waiting processes
			sc := genC18(d).(*SetCase)
			sc.Shutdown = true
			sc.CancelAt = 1 + d.N(80)
			if d.N(5) == 4 {
				sc.CancelAt = 0
			}
			return sc
		case 5:
			inner = genC07Timers(d)
		case 2:
			inner = genC11(d)
		case 3:
			inner = genC06(d)
		case 4:
			inner = genC10(d)
		}
		c := inner.(*ProcCase)
		c.Shutdown = true
		c.CancelAt = 1 + d.N(60)
		if d.N(5) == 4 {
			c.CancelAt = 0
		}
		// drop a suffix of the event plan so that listeners are still waiting when the cancel comes
		if n := len(c.Events); n > 0 {
			c.Events = c.Events[:d.N(n+1)]
		}
		if c.Meta == nil {
			c.Meta = map[string]int{}
		}
		c.Meta["c07family"] = fam
		return c
	}
	opts := ProgOpts{Kinds: []string{"seq", "xor", "and", "or", "loop", "sub", "condtask"}, MaxDepth: 1 + d.N(2), MaxTasks: 2 + d.N(5), OrEarlyEnd: true, Throws: true}
	var kinds []string
	for _, k := range opts.Kinds {
		if d.N(3) != 0 {
			kinds = append(kinds, k)
		}
	}
	opts.Kinds = kinds
	opts.StartFork = d.Bool()
	opts.ActivityDefault = d.Bool()
	opts.EmptyBranches = d.Bool()
	opts.Fuse = d.Bool()
	prog := GenProgram(d, opts)
	c := &ProcCase{Prog: prog, Buf: d.N(17), Hold: d.N(3), Shutdown: true}
	// cancellation point = number of traces observed before the cancel
	c.CancelAt = 1 + d.N(90)
	if d.N(5) == 4 {
		c.CancelAt = 0 // cancel only after the instance has come to rest
	}
	// some tasks are never answered: the cancel then finds requests pending
	if d.N(3) == 2 {
		c.NoAnswer = map[string]bool{}
		for _, t := range prog.Defs.Procs[0].AllTasks() {
			if d.N(3) == 0 {
				c.NoAnswer[t] = true
			}
		}
	}
	// some tasks are answered with an error whose handler decision comes late (or never before the cancel)
	if d.N(3) == 2 {
		c.Scripts = map[string][]AnswerSpec{}
		for _, t := range prog.Defs.Procs[0].AllTasks() {
			if d.N(3) == 0 {
				modes := []string{"skip", "exit", "retry", "err"}
				sp := AnswerSpec{Mode: modes[d.N(len(modes))], Retries: 1 + d.N(2), LateHandler: d.N(2) == 1}
				c.Scripts[t] = []AnswerSpec{sp}
			}
		}
	}
	nw := 1 + d.N(2)
	for i := 0; i < nw; i++ {
		c.Waiters = append(c.Waiters, WaiterPlan{})
	}
	c.Picks = drawPicks(d, 32)
	switch d.N(8) {
	case 6:
		c.StartMode = 3 // set going through its throw events (if it has none, nothing runs)
	case 7:
		c.StartMode = 4 // never started: the cancel finds an instance that was only created
	}
	return c
}

// programHas reports which node kinds a program contains.
func programKinds(g *Graph, out map[string]bool) {
	for _, n := range g.Nodes {
		out[n.Kind] = true
		if n.Sub != nil {
			programKinds(n.Sub, out)
		}
	}
}

// checkC07Set: the shutdown clauses for a process set (several instances, message flows between them).
func checkC07Set(c *SetCase, r *simrt.Result) *Outcome {
	o := &Outcome{}
	var vl vlist
	for _, p := range r.Panics {
		vl.add("C07/panic", "%s", p)
	}
	cancelN, cancelled := 0, false
	tracerDone, obsClosed, ended := false, false, false
	waits, waitRets := 0, 0
	for _, ev := range c.env.L.E {
		switch ev.Kind {
		case "cancel":
			if !cancelled {
				cancelled = true
				cancelN = ev.N
			}
		case "req-live-after-cancel":
			vl.add("C07/late-task-live-context", "step %d: TaskTrace %s observed after the cancel carries a context that is not cancelled", ev.Step, ev.A)
		case "wait":
			waits++
		case "complete", "wait-panic":
			waitRets++
		case "tracer-done":
			tracerDone = true
		case "obs-closed":
			obsClosed = true
		case "end":
			ended = true
		case "fatal":
			vl.add("C07/harness", "%s", ev.A)
		}
	}
	if r.StepCap {
		vl.add("C07/spinning", "the run hit the step cap (%d steps): after the cancel some goroutine keeps being runnable without the set coming to rest (busy loop)", r.Steps)
	}
	if r.Horizon {
		vl.add("C07/harness", "simulated-time horizon hit")
	}
	if ended {
		if waitRets < waits {
			vl.add("C07/waiter-hangs", "%d of %d ProcessSet.WaitUntilComplete call(s) had not returned after the cancel", waits-waitRets, waits)
		}
		if !tracerDone {
			vl.add("C07/tracer-not-done", "the set's Tracer().Done() was not closed after the cancel and a full quiescence period")
		}
		if !obsClosed {
			vl.add("C07/subscriber-not-closed", "the subscriber channel of the set's tracer was not closed after the cancel")
		}
		var leaks []string
		engine := 0
		for _, g := range r.Live() {
			if g.ID == 0 {
				continue
			}
			leaks = append(leaks, fmt.Sprintf("g%d spawned at %s, %s at %s", g.ID, g.SpawnSite, g.State, g.Site))
			if !strings.HasPrefix(g.SpawnSite, "drive.go") && !strings.HasPrefix(g.SpawnSite, "props") {
				engine++
			}
		}
		if engine > 0 {
			vl.add("C07/goroutine-leak", "%d goroutine(s) started by the process set are still alive after the cancel: %s", engine, strings.Join(leaks, "; "))
		}
	} else if !r.StepCap && !r.Horizon {
		vl.add("C07/harness", "driver did not reach its end")
	}
	o.Viol = vl.v
	seen := map[string]bool{}
	for _, g := range r.Live() {
		if g.ID == 0 || strings.HasPrefix(g.SpawnSite, "drive.go") || strings.HasPrefix(g.SpawnSite, "props") || g.State != "blocked" {
			continue
		}
		sig := "stuck:" + stripLine(g.SpawnSite) + ">" + stripLine(g.Site)
		if !seen[sig] {
			seen[sig] = true
			o.Tags = append(o.Tags, sig)
		}
	}
	o.Nontrivial = cancelled && r.Switches > 0
	probe(o, "process-set", true)
	probe(o, "process-set-cancel-landed-mid-flight", cancelN > 0)
	o.Sample = map[string]any{"set": c.Desc, "cancelAtTrace": c.CancelAt, "landed": cancelN}
	return o
}

func checkC07(cc Case, r *simrt.Result) *Outcome {
	if sc, ok := cc.(*SetCase); ok {
		return checkC07Set(sc, r)
	}
	c := cc.(*ProcCase)
	o := &Outcome{}
	var vl vlist
	for _, p := range r.Panics {
		vl.add("C07/panic", "%s", p)
	}
	hist := c.env.L.E
	cancelStep := int64(-1)
	cancelN := 0
	tracerDone := false
	obsClosed := false
	ended := false
	waits, waitRets := 0, 0
	lateTask := 0
	pendingAtCancel := 0
	reqs, answers := 0, 0
	lateDo := 0
	tracerDoneStep := int64(-1)
	for _, ev := range hist {
		switch ev.Kind {
		case "cancel":
			if cancelStep < 0 {
				cancelStep = ev.Step
				cancelN = ev.N
				pendingAtCancel = reqs - answers
			}
		case "t:task":
			reqs++
			if cancelStep >= 0 {
				lateTask++
			}
			if tracerDoneStep >= 0 {
				vl.add("C07/task-after-tracer-done", "step %d: TaskTrace %s after the tracer was done", ev.Step, ev.A)
			}
		case "req-cancelled":
		case "req-live-after-cancel":
			vl.add("C07/late-task-live-context", "step %d: TaskTrace %s observed after the cancel carries a context that is not cancelled", ev.Step, ev.A)
		case "ans", "noanswer":
			answers++
		case "wait":
			waits++
		case "complete":
			waitRets++
		case "late-do-call":
			lateDo++
		case "late-do-ret":
			lateDo--
		case "tracer-done":
			tracerDone = true
			tracerDoneStep = ev.Step
		case "obs-closed":
			obsClosed = true
		case "end":
			ended = true
		case "fatal":
			vl.add("C07/harness", "%s", ev.A)
		}
	}
	if r.StepCap {
		vl.add("C07/spinning", "the run hit the step cap (%d steps): after the cancel some goroutine keeps being runnable without the instance coming to rest (busy loop)", r.Steps)
	}
	if r.Horizon {
		vl.add("C07/harness", "simulated-time horizon hit")
	}
	if ended && lateDo > 0 {
		vl.add("C07/do-blocked", "%d TaskTrace.Do call(s) issued after the cancel on requests that had been left open have not returned: an answer must never block its caller", lateDo)
	}
	if ended {
		if waitRets < waits {
			vl.add("C07/waiter-hangs", "%d of %d WaitUntilComplete call(s) had not returned after the cancel (start mode %d)", waits-waitRets, waits, c.StartMode)
		}
		if !tracerDone {
			vl.add("C07/tracer-not-done", "Tracer().Done() was not closed after the cancel and a full quiescence period")
		}
		if !obsClosed {
			vl.add("C07/subscriber-not-closed", "the subscriber channel was not closed after the cancel")
		}
		var leaks []string
		for _, g := range r.Live() {
			if g.ID == 0 {
				continue
			}
			leaks = append(leaks, fmt.Sprintf("g%d spawned at %s, %s at %s", g.ID, g.SpawnSite, g.State, g.Site))
		}
		if len(leaks) > 0 {
			engine := 0
			for _, g := range r.Live() {
				if g.ID != 0 && !strings.HasPrefix(g.SpawnSite, "drive.go") && !strings.HasPrefix(g.SpawnSite, "props") {
					engine++
				}
			}
			if engine > 0 {
				vl.add("C07/goroutine-leak", "%d goroutine(s) started by the instance are still alive after the cancel: %s", engine, strings.Join(leaks, "; "))
			}
		}
	} else if !r.StepCap && !r.Horizon {
		vl.add("C07/harness", "driver did not reach its end")
	}
	o.Viol = vl.v
	// signatures of the engine goroutines that are stuck in a blocking operation (root causes of leaks and
	// of never-ending polling): "stuck:<spawn file@func>><block file@func>"
	seen := map[string]bool{}
	for _, g := range r.Live() {
		if g.ID == 0 || strings.HasPrefix(g.SpawnSite, "drive.go") || g.State != "blocked" {
			continue
		}
		sig := "stuck:" + stripLine(g.SpawnSite) + ">" + stripLine(g.Site)
		if !seen[sig] {
			seen[sig] = true
			o.Tags = append(o.Tags, sig)
		}
	}
	kinds := map[string]bool{}
	programKinds(c.Prog.Defs.Procs[0], kinds)
	for k := range kinds {
		if k == "or" || k == "sub" {
			o.Tags = append(o.Tags, "has-"+k)
		}
	}
	o.Tags = append(o.Tags, c.Prog.Tags...)
	o.Nontrivial = cancelStep >= 0 && r.Switches > 0
	probe(o, "cancel-landed-mid-flight", cancelN > 0)
	probe(o, "cancel-while-task-pending", cancelN > 0 && pendingAtCancel > 0)
	probe(o, "cancel-after-rest", cancelN == 0)
	probe(o, "answers-after-the-cancel-on-requests-left-open", c.env.FaultCounts()["answers-after-the-cancel"] > 0)
	probe(o, "instance-set-going-through-its-throw-events", c.StartMode == 3 && reqs > 0)
	probe(o, "instance-never-started", c.StartMode == 4)
	probe(o, "event-nodes-present", c.Meta["c07family"] >= 2)
	probe(o, "task-trace-raced-cancel", lateTask > 0)
	if cancelN > 0 {
		c.env.fault("cancel-mid-flight")
	}
	o.Sample = map[string]any{"program": c.Prog.Desc, "cancelAtTrace": c.CancelAt, "noAnswer": c.NoAnswer, "buf": c.Buf, "hold": c.Hold, "landed": cancelN}
	return o
}

func init() {
	Props["C07"] = &Scenario{Gen: genC07, Check: checkC07, MaxSteps: 150000} // (longest ordinary runs: about 20 000 steps; a busy loop runs into any cap)
}

// stripLine turns "file.go:123@Func+w" into "file.go@Func".
func stripLine(site string) string {
	site = strings.TrimSuffix(site, "+w")
	i := strings.Index(site, ":")
	j := strings.Index(site, "@")
	if i >= 0 && j > i {
		return site[:i] + site[j:]
	}
	return site
}
