package zzverif

import (
	"context"
	"fmt"
	"time"

	"github.com/olive-io/bpmn/schema"
	bpmn "github.com/olive-io/bpmn/v2"
	"github.com/olive-io/bpmn/v2/pkg/clock"
	"github.com/olive-io/bpmn/v2/pkg/event"
	"github.com/olive-io/bpmn/v2/pkg/timer"
	"github.com/olive-io/bpmn/v2/pkg/tracing"

	"verif/sim/simrt"
)

// ---------- C13: timers never fire early and fire exactly as often as their definition says ----------

// TimerCase: a timer definition on the repository's mock clock (or on the host clock under the
// simulator's fake time), a clock history on a grid around the due times, optional cancellation.
type TimerCase struct {
	Kind     string  `json:"kind"` // date duration cycle
	Spec     string  `json:"spec"` // "T:..", "D:..", "C:.."
	StartMs  int64   `json:"startMs"`  // cycle: start offset (ms after epoch), -1 = "now" at creation
	IntMs    int64   `json:"intervalMs"`
	Reps     int     `json:"reps"` // -1 unbounded
	EndMs    int64   `json:"endMs"` // -1 none
	DueMs    int64   `json:"dueMs"` // date/duration
	Steps    []int64 `json:"steps"` // absolute clock values (ns after epoch); non-decreasing unless Back
	Back     bool    `json:"back"`  // the clock is also set back (mock clock, timer alone)
	CancelAt int     `json:"cancelAt"` // cancel before this step index (-1 never)
	HostClk  bool    `json:"hostClock"`
	Proc     bool    `json:"process"` // (c) a process with a timer catch event
	PreTask  bool    `json:"preTask"`
	SecondAt int     `json:"secondAt"` // (process) a second instance of the same definitions is created through the same builder before this step (-1 never)
	LazyFrom int     `json:"lazyFrom"` // (timer alone, mock clock) from this step on nobody reads the timer's channel; the reader returns after the cancellation has settled (-1: the reader always reads)
	Far      int     `json:"far"`  // a second timer on the same clock, due far in the future (1: 9999-12-31T23:59:59Z, 2: 2300-01-01, 3: 2100-06-01): it never fires
	Nest     int     `json:"nest"` // (process) the body of the process lies inside this many levels of embedded sub-process
	NoSettle bool    `json:"noSettle"` // the clock is moved without waiting for the timer goroutines to settle (arming races the jumps)
	def      *schema.TimerEventDefinition
	farDef   *schema.TimerEventDefinition
	defs     *schema.Definitions
	env      *Env
}

func (t *TimerCase) Env() *Env { return t.env }

func iso(ms int64) string {
	return time.Unix(0, ms*int64(time.Millisecond)).UTC().Format(time.RFC3339Nano)
}

func (t *TimerCase) Prepare() error {
	t.env = &Env{}
	d := &Definitions{}
	g := &Graph{ID: "P1", Executable: true}
	d.Procs = []*Graph{g}
	g.addNode(&Node{ID: "Start", Kind: "start"})
	cur := "Start"
	if t.PreTask {
		g.addNode(&Node{ID: "T0", Kind: "task"})
		g.connect(d, cur, "T0", nil, -1)
		cur = "T0"
	}
	g.addNode(&Node{ID: "CT", Kind: "catch", Events: []EventDef{{Kind: "timer", Timer: t.Spec}}})
	g.connect(d, cur, "CT", nil, -1)
	g.addNode(&Node{ID: "T1", Kind: "task"})
	g.connect(d, "CT", "T1", nil, -1)
	g.addNode(&Node{ID: "End", Kind: "end"})
	g.connect(d, "T1", "End", nil, -1)
	if t.Far > 0 {
		// a second token waits at a catch event whose date timer is due far in the future (same clock)
		far := []string{"", "9999-12-31T23:59:59Z", "2300-01-01T00:00:00Z", "2100-06-01T12:00:00Z"}[t.Far]
		g.addNode(&Node{ID: "FK", Kind: "and"})
		f0 := g.Flow(g.Node("Start").Out[0])
		to := f0.To
		// Start -> FK -> (old target), FK -> CF -> TF -> EF
		f0.To = "FK"
		tn := g.Node(to)
		for i, in := range tn.In {
			if in == f0.ID {
				tn.In = append(tn.In[:i], tn.In[i+1:]...)
				break
			}
		}
		g.Node("FK").In = []string{f0.ID}
		g.connect(d, "FK", to, nil, -1)
		g.addNode(&Node{ID: "CF", Kind: "catch", Events: []EventDef{{Kind: "timer", Timer: "T:" + far}}})
		g.connect(d, "FK", "CF", nil, -1)
		g.addNode(&Node{ID: "TF", Kind: "task"})
		g.connect(d, "CF", "TF", nil, -1)
		g.addNode(&Node{ID: "EF", Kind: "end"})
		g.connect(d, "TF", "EF", nil, -1)
	}
	if t.Nest > 0 {
		nestBody(d, g, t.Nest)
	}
	defs, err := parseDefs(d.XML())
	if err != nil {
		return err
	}
	t.defs = defs
	found, ok := defs.FindBy(schema.ExactId("CT"))
	ce, ok2 := found.(*schema.IntermediateCatchEvent)
	if !ok || !ok2 {
		return fmt.Errorf("timer catch event not found")
	}
	tds := ce.TimerEventDefinitionField
	if len(tds) != 1 {
		return fmt.Errorf("timer definition not parsed")
	}
	t.def = &tds[0]
	if t.Far > 0 {
		if found, ok := defs.FindBy(schema.ExactId("CF")); ok {
			if cf, ok := found.(*schema.IntermediateCatchEvent); ok && len(cf.TimerEventDefinitionField) == 1 {
				t.farDef = &cf.TimerEventDefinitionField[0]
			}
		}
		if t.farDef == nil {
			return fmt.Errorf("far timer definition not parsed")
		}
	}
	return nil
}

func (t *TimerCase) Main() {
	L := &t.env.L
	ctx, cancel := context.WithCancel(context.Background())
	defer cancel()
	settle := func() { <-time.After(time.Millisecond) }
	if t.HostClk {
		// real clock.Host code on the simulator's fake time
		c, err := clock.Host(ctx)
		if err != nil {
			L.Add("fatal", err.Error(), "", 0)
			return
		}
		t0 := time.Now()
		ch, err := timer.New(ctx, c, *t.def)
		if err != nil {
			L.Add("fatal", err.Error(), "", 0)
			return
		}
		go func() {
			for range ch {
				L.AddV("fire", "", time.Since(t0).Nanoseconds())
			}
			L.Add("closed", "", "", 0)
		}()
		prev := int64(0)
		for i, st := range t.Steps {
			if t.CancelAt == i {
				L.Add("cancel", "", "", i)
				cancel()
			}
			if st > prev {
				<-time.After(time.Duration(st - prev))
			}
			settle()
			prev = time.Since(t0).Nanoseconds()
			L.AddV("hostclock", "", prev)
		}
		L.Add("end", "", "", 0)
		return
	}
	mock := clock.NewMockAt(time.Unix(0, 0))
	if t.Proc {
		t.mainProc(ctx, cancel, mock)
		return
	}
	ch, err := timer.New(ctx, mock, *t.def)
	if err != nil {
		L.Add("fatal", err.Error(), "", 0)
		return
	}
	if t.farDef != nil {
		fch, err := timer.New(ctx, mock, *t.farDef)
		if err != nil {
			L.Add("fatal", err.Error(), "", 0)
			return
		}
		go func() {
			for range fch {
				L.Add("far-fire", "", "", 0)
			}
		}()
	}
	pauseCh, resumeCh, readerGone := make(chan struct{}), make(chan struct{}), make(chan struct{})
	go func() {
		defer close(readerGone)
		for {
			select {
			case _, ok := <-ch:
				if !ok {
					L.Add("closed", "", "", 0)
					return
				}
				L.Add("fire", "", "", 0)
			case <-pauseCh:
				<-resumeCh // the consumer is busy elsewhere: nobody reads the timer's channel
			}
		}
	}()
	if t.NoSettle {
		// jumps race the arming of the timer: only the final outcome is determined
		for _, st := range t.Steps {
			mock.Set(time.Unix(0, st))
		}
		settle()
		L.AddV("final-clock", "", t.Steps[len(t.Steps)-1])
		L.Add("end", "", "", 0)
		return
	}
	settle()
	L.AddV("clock", "", int64(0))
	cancelled := false
	for i, st := range t.Steps {
		if t.LazyFrom == i {
			select {
			case pauseCh <- struct{}{}:
			case <-readerGone: // the channel was closed before: nothing is read any more anyway
			}
			L.Add("paused", "", "", i)
		}
		if t.CancelAt == i {
			L.Add("cancel", "", "", i)
			cancel()
			cancelled = true
			settle()
		}
		mock.Set(time.Unix(0, st))
		L.AddV("clock", "", st)
		settle()
	}
	if t.LazyFrom >= 0 && t.LazyFrom < len(t.Steps) {
		// whatever became due while nobody was reading waits in the timer's goroutine; the cancellation
		// withdraws it (the system is at rest before the reader comes back), so the reader finds no firing
		if !cancelled {
			L.Add("cancel", "", "", len(t.Steps))
			cancel()
			settle()
		}
		L.Add("resumed", "", "", 0)
		close(resumeCh)
		settle()
	}
	L.Add("end", "", "", 0)
}

func (t *TimerCase) mainProc(ctx context.Context, cancel context.CancelFunc, mock *clock.Mock) {
	L := &t.env.L
	settle := func() { <-time.After(time.Millisecond) }
	cctx := clock.ToContext(ctx, mock)
	fan := event.NewFanOut()
	tracer := tracing.NewTracer(cctx)
	builder := event.DefinitionInstanceBuildingChain(timer.EventDefinitionInstanceBuilder(cctx, fan, tracer), event.WrappingDefinitionInstanceBuilder)
	traces := tracer.SubscribeChannel(make(chan tracing.ITrace, 64))
	engine := bpmn.NewEngine(bpmn.WithEngineContext(cctx))
	gen := &ctrGen{prefix: "id"}
	pending := make(chan bpmn.TaskTrace, 16)
	go func() {
		for tr := range traces {
			k, a, b := describe(tracing.Unwrap(tr))
			if k == "task" {
				b = instanceOf(tr)
			}
			L.Add("t:"+k, a, b, 0)
			if tt, ok := tracing.Unwrap(tr).(bpmn.TaskTrace); ok {
				pending <- tt
			}
		}
	}()
	newInstance := func(label string) {
		proc, err := engine.NewProcess(t.defs, bpmn.WithContext(cctx), bpmn.WithTracer(tracer), bpmn.WithIdGenerator(gen),
			bpmn.WithProcessEventDefinitionInstanceBuilder(builder), bpmn.WithEventEgress(fan), bpmn.WithEventIngress(fan))
		if err != nil {
			L.Add("fatal", err.Error(), "", 0)
			return
		}
		L.Add("instance", label, proc.Id().String(), 0)
		if err := proc.StartAll(cctx); err != nil {
			L.Add("fatal", err.Error(), "", 0)
		}
	}
	newInstance("first")
	answer := func() {
		for {
			select {
			case tt := <-pending:
				L.Add("ans", nodeID(tt.GetActivity().Element()), "", 0)
				tt.Do()
			default:
				return
			}
		}
	}
	settle()
	L.AddV("clock", "", int64(0))
	for i, st := range t.Steps {
		if t.SecondAt == i {
			newInstance("second")
			settle()
		}
		if t.PreTask && i == len(t.Steps)/2 {
			answer() // the token reaches the timer catch event only now
			settle()
			L.Add("armed-from-here", "", "", i)
		}
		if !t.PreTask {
			answer()
			settle()
		}
		L.AddV("clock", "", st) // logged before the jump: its effects are observed by other goroutines
		mock.Set(time.Unix(0, st))
		settle()
	}
	answer()
	settle()
	answer()
	settle()
	L.Add("end", "", "", 0)
}

const ms = int64(time.Millisecond)

func genC13(d *Draw) Case {
	t := &TimerCase{CancelAt: -1, StartMs: -1, EndMs: -1, Reps: -1, SecondAt: -1, LazyFrom: -1}
	var marks []int64 // due instants (ns) the grid is built around
	switch d.N(3) {
	case 0:
		t.Kind = "date"
		t.DueMs = 1000 * int64(1+d.N(20))
		t.Spec = "T:" + iso(t.DueMs)
		marks = []int64{t.DueMs * ms}
	case 1:
		t.Kind = "duration"
		t.DueMs = 1000 * int64(1+d.N(20))
		t.Spec = fmt.Sprintf("D:PT%dS", t.DueMs/1000)
		marks = []int64{t.DueMs * ms}
	case 2:
		t.Kind = "cycle"
		t.IntMs = 1000 * int64(1+d.N(10))
		rn := d.N(5) // 0..3 repetitions, 4 = unbounded
		rs := "R"
		if rn < 4 {
			t.Reps = rn
			rs = fmt.Sprintf("R%d", rn)
		}
		withStart := d.Bool()
		withEnd := !withStart && d.N(3) == 2
		switch {
		case withStart:
			t.StartMs = 1000 * int64(d.N(10))
			t.Spec = fmt.Sprintf("C:%s/%s/PT%dS", rs, iso(t.StartMs), t.IntMs/1000)
		case withEnd:
			t.StartMs = 0
			t.EndMs = t.IntMs * int64(1+d.N(4)) + 500*int64(d.N(2))
			t.Spec = fmt.Sprintf("C:%s/PT%dS/%s", rs, t.IntMs/1000, iso(t.EndMs))
		default:
			t.StartMs = 0 // "now" at creation = epoch
			t.Spec = fmt.Sprintf("C:%s/PT%dS", rs, t.IntMs/1000)
		}
		for k := int64(0); k <= 4; k++ {
			marks = append(marks, (t.StartMs+k*t.IntMs)*ms)
		}
		if t.EndMs >= 0 {
			marks = append(marks, t.EndMs*ms)
		}
	}
	// clock history: up to 6 non-decreasing values from the grid {before, 1ns before, at, 1ns after, far beyond}
	n := 1 + d.N(6)
	cur := int64(0)
	t.Back = d.N(4) == 3
	for i := 0; i < n; i++ {
		m := marks[d.N(len(marks))]
		var v int64
		switch d.N(6) {
		case 0:
			v = m - 500*ms
		case 1:
			v = m - 1
		case 2:
			v = m
		case 3:
			v = m + 1
		case 4:
			v = m + 1000*int64(1+d.N(100))*ms // far beyond
		case 5:
			v = cur // the clock does not move
		}
		if v < cur && !t.Back {
			v = cur
		}
		if v < 0 {
			v = 0
		}
		cur = v
		t.Steps = append(t.Steps, v)
	}
	if d.N(4) == 3 {
		t.CancelAt = d.N(n)
	}
	switch d.N(7) {
	case 6:
		if t.Kind != "cycle" {
			t.NoSettle = true
			t.CancelAt = -1
		}
	case 4:
		t.HostClk = true
		if t.Kind == "date" {
			// the host clock runs on the bubble's fake wall clock, which does not start at the epoch
			t.Kind = "duration"
			t.Spec = fmt.Sprintf("D:PT%dS", t.DueMs/1000)
		}
		if t.Kind == "cycle" && t.EndMs < 0 {
			t.StartMs = 0 // "now" at creation
			rs := "R"
			if t.Reps >= 0 {
				rs = fmt.Sprintf("R%d", t.Reps)
			}
			t.EndMs = -1
			t.Spec = fmt.Sprintf("C:%s/PT%dS", rs, t.IntMs/1000)
		}
		if t.EndMs >= 0 {
			t.HostClk = false
		}
	case 5:
		if t.Kind != "cycle" {
			t.Proc = true
			t.PreTask = d.Bool()
			t.CancelAt = -1
			if !t.PreTask && d.Bool() {
				// a second instance of the same definitions, built through the same event-definition builder
				t.SecondAt = d.N(len(t.Steps))
			}
			if d.N(3) == 2 {
				t.Nest = 1 + d.N(2)
			}
		}
	}
	if t.Back && (t.HostClk || t.Proc || t.NoSettle) {
		// these modes have a clock that only moves forward (fake wall clock), or an outcome that is determined
		// only for a monotonic history
		t.Back = false
		for i := 1; i < len(t.Steps); i++ {
			if t.Steps[i] < t.Steps[i-1] {
				t.Steps[i] = t.Steps[i-1]
			}
		}
	}
	if !t.HostClk && d.N(4) == 3 {
		t.Far = 1 + d.N(3)
	}
	if !t.HostClk && !t.Proc && !t.NoSettle && !t.Back && d.N(5) == 4 {
		// a reader that stops reading at some point and only returns after the cancellation
		t.LazyFrom = d.N(len(t.Steps))
	}
	if t.Back {
		back := false
		for i := 1; i < len(t.Steps); i++ {
			back = back || t.Steps[i] < t.Steps[i-1]
		}
		t.Back = back
	}
	return t
}

// expectedFirings is the reference arithmetic: how many firings must have been delivered after each
// clock step (cumulative), and whether the channel must be closed at the end.
func (t *TimerCase) expectedFirings() (cum []int, closed bool) {
	clocks := append([]int64{0}, t.Steps...)
	fired := 0
	switch t.Kind {
	case "date", "duration":
		due := t.DueMs * ms
		for _, c := range clocks {
			if fired == 0 && c >= due {
				fired = 1
			}
			cum = append(cum, fired)
		}
		return cum, fired == 1
	}
	started := false
	last := t.StartMs * ms
	reps := t.Reps
	done := false
	for _, c := range clocks {
		if !started && c >= t.StartMs*ms {
			started = true
			if reps == 0 {
				done = true
			}
		}
		if started && !done {
			if t.EndMs >= 0 && c >= t.EndMs*ms {
				done = true
			} else if c >= last+t.IntMs*ms {
				fired++
				last = c
				if reps > 0 {
					reps--
					if reps == 0 {
						done = true
					}
				}
			}
		}
		cum = append(cum, fired)
	}
	return cum, done
}

func checkC13(cc Case, r *simrt.Result) *Outcome {
	t := cc.(*TimerCase)
	o := &Outcome{}
	var vl vlist
	genericRunViolations("C13", r, &vl)
	for _, p := range r.Panics {
		vl.add("C13/panic", "%s", p)
	}
	for _, ev := range t.env.L.E {
		if ev.Kind == "far-fire" || (ev.Kind == "t:task" && ev.A == "TF") {
			vl.add("C13/fired-early-or-too-often", "the second timer on the same clock, due far in the future (variant %d), fired although the clock never got anywhere near it (history %v)", t.Far, t.Steps)
			break
		}
	}
	if t.HostClk {
		return checkC13Host(t, r, &vl)
	}
	if t.NoSettle {
		fires := 0
		for _, ev := range t.env.L.E {
			if ev.Kind == "fire" {
				fires++
			}
		}
		wantN := 0
		if t.Steps[len(t.Steps)-1] >= t.DueMs*ms {
			wantN = 1
		}
		if fires != wantN {
			vl.add("C13/wrong-count", "timer %s fired %d time(s); the clock was moved through %v without pauses while the timer was arming and ended at or past the due time: exactly %d firing is prescribed", t.Spec, fires, t.Steps, wantN)
		}
		o.Viol = vl.v
		o.Nontrivial = true
		probe(o, "jumps-race-arming", true)
		o.Sample = map[string]any{"definition": t.Spec, "clock_steps_ns": t.Steps, "noSettle": true, "fired": fires}
		return o
	}
	want, wantClosed := t.expectedFirings()
	fires := 0
	step := -1
	cancelled := false
	cancelStep := -1
	firesAtCancel := 0
	closed := false
	ended := false
	requestsT1 := 0
	armedFrom := -1
	firedAfterArmed := 0
	paused, resumed := false, false
	for _, ev := range t.env.L.E {
		if paused && (ev.Kind == "clock" || ev.Kind == "end") {
			// nobody reads: what the definition prescribes is no longer what a reader can have seen
			if ev.Kind == "end" {
				ended = true
			}
			continue
		}
		switch ev.Kind {
		case "paused":
			paused = true
		case "resumed":
			resumed = true
		case "fire":
			fires++
			if resumed {
				vl.add("C13/fired-after-cancel", "a firing was handed to the reader of the timer's channel after the timer's context had been cancelled and the system had come to rest (the reader was away from step %d on and came back after the cancellation; history %v)", t.LazyFrom, t.Steps)
			}
			if cancelled && fires > firesAtCancel {
				// a firing that was already due before the cancel may still be delivered; one due later may not
				if step+1 < len(want) && cancelStep >= 0 && fires > maxWantUpTo(want, cancelStep) {
					vl.add("C13/fired-after-cancel", "a firing was delivered after the timer's context was cancelled (firing #%d, cancel before step %d)", fires, cancelStep)
				}
			}
		case "clock":
			// everything due by the previous clock value has been delivered (the run was quiescent)
			if step >= 0 && !cancelled && !t.Proc {
				if fires < want[step] {
					vl.add("C13/missed-firing", "after clock step %d (%dns) %d firing(s) delivered, the definition %s prescribes %d (history %v)", step, stepVal(t, step), fires, t.Spec, want[step], t.Steps)
				}
			}
			step++
			if !t.Proc && step < len(want) && fires > want[step] && !cancelled {
				// a firing observed before the clock reached its due time
				vl.add("C13/fired-early-or-too-often", "before clock step %d took effect %d firing(s) had been delivered, at most %d are due by then (definition %s, history %v)", step, fires, want[step], t.Spec, t.Steps)
			}
		case "cancel":
			cancelled = true
			cancelStep = ev.N
			firesAtCancel = fires
		case "closed":
			closed = true
		case "end":
			ended = true
		case "t:task":
			if ev.A == "T1" {
				requestsT1++
			}
		case "armed-from-here":
			armedFrom = ev.N
			firedAfterArmed = 0
		case "fatal":
			vl.add("C13/harness", "%s", ev.A)
		}
	}
	_ = firedAfterArmed
	if ended && !t.Proc && !paused {
		last := len(want) - 1
		if !cancelled {
			if fires != want[last] {
				vl.add("C13/wrong-count", "timer %s fired %d time(s) over the clock history %v, the definition prescribes %d", t.Spec, fires, t.Steps, want[last])
			}
			if wantClosed && !closed {
				vl.add("C13/not-closed", "timer %s has delivered its last firing but its channel was not closed", t.Spec)
			}
		} else if fires > want[last] {
			vl.add("C13/wrong-count", "timer %s fired %d time(s), more than the %d the definition prescribes", t.Spec, fires, want[last])
		}
	}
	if ended && t.Proc && t.SecondAt >= 0 {
		// two instances: each has its own timer, armed when the instance was created
		inst := map[string]string{} // instance id -> label
		reqs := map[string]int{}
		clocks := append([]int64{0}, t.Steps...)
		stepNow := 0
		nclock := 0
		createdAt := map[string]int64{}
		early := ""
		for _, ev := range t.env.L.E {
			switch ev.Kind {
			case "instance":
				inst[ev.B] = ev.A
				createdAt[ev.A] = clocks[stepNow]
			case "clock":
				nclock++
				stepNow = nclock - 1
			case "t:task":
				if ev.A == "T1" {
					lab := inst[ev.B]
					reqs[lab]++
					due := t.DueMs * ms
					if t.Kind == "duration" {
						due += createdAt[lab]
					}
					now := clocks[stepNow]
					if stepNow < len(clocks) && now < due {
						early = fmt.Sprintf("instance %q continued behind its timer at clock %dns, its timer (%s, instance created at %dns) is due at %dns", lab, now, t.Spec, createdAt[lab], due)
					}
				}
			}
		}
		if early != "" {
			vl.add("C13/process-timer", "%s", early)
		}
		final := clocks[len(clocks)-1]
		for _, lab := range []string{"first", "second"} {
			due := t.DueMs * ms
			if t.Kind == "duration" {
				due += createdAt[lab]
			}
			expect := 0
			if final >= due {
				expect = 1
			}
			// a date timer that was already past due when the instance was created has fired before the
			// token listened: that instance never continues
			if t.Kind == "date" && createdAt[lab] >= due && lab == "second" {
				expect = -1
			}
			if expect >= 0 && reqs[lab] != expect {
				vl.add("C13/process-timer", "instance %q: the task behind its timer catch event was requested %d time(s), expected %d (timer %s, instance created at clock %dns, history %v)", lab, reqs[lab], expect, t.Spec, createdAt[lab], t.Steps)
			}
		}
	} else if ended && t.Proc {
		// a process continues exactly once per firing it was listening for (date/duration timers fire once)
		last := len(want) - 1
		expect := want[last]
		if t.PreTask {
			// the token reached the catch event only at armedFrom: a firing before that was not listened for
			expect = 0
			if armedFrom >= 0 && want[last] == 1 && want[armedFrom] == 0 {
				expect = 1
			}
		}
		if requestsT1 != expect {
			vl.add("C13/process-timer", "the task behind the timer catch event was requested %d time(s), expected %d (definition %s, clock history %v, token armed from step %d)", requestsT1, expect, t.Spec, t.Steps, armedFrom)
		}
	}
	o.Viol = vl.v
	o.Nontrivial = len(t.Steps) > 1
	probe(o, "fired", fires > 0 || requestsT1 > 0)
	probe(o, "cancelled", cancelled)
	probe(o, "host-clock", t.HostClk)
	probe(o, "process-level", t.Proc)
	probe(o, "two-instances-one-builder", t.Proc && t.SecondAt >= 0)
	probe(o, "timer-catch-inside-sub-process", t.Proc && t.Nest > 0)
	probe(o, "second-timer-far-in-the-future-on-the-same-clock", t.Far > 0)
	probe(o, "reader-away-until-after-cancel", paused && resumed)
	probe(o, "cycle", t.Kind == "cycle")
	probe(o, "clock-set-back", t.Back)
	if t.Back {
		t.env.fault("clock-set-back")
	}
	o.Sample = map[string]any{"definition": t.Spec, "clock_steps_ns": t.Steps, "cancelBeforeStep": t.CancelAt, "hostClock": t.HostClk, "process": t.Proc, "fired": fires}
	return o
}

func maxWantUpTo(want []int, i int) int {
	if i < 0 {
		return 0
	}
	if i >= len(want) {
		i = len(want) - 1
	}
	return want[i]
}

func stepVal(t *TimerCase, step int) int64 {
	if step == 0 {
		return 0
	}
	if step-1 < len(t.Steps) {
		return t.Steps[step-1]
	}
	return -1
}

func init() {
	Props["C13"] = &Scenario{Gen: genC13, Check: checkC13}
}

// checkC13Host: the timer runs on the real clock.Host code; the clock is the simulator's fake time. After
// every sleep the run is quiescent, so the number of firings delivered must equal what the definition
// prescribes for the elapsed time, and each firing must carry a time that is not before its due time.
func checkC13Host(t *TimerCase, r *simrt.Result, vl *vlist) *Outcome {
	o := &Outcome{}
	fires := 0
	cancelled := false
	var actual []int64
	for _, ev := range t.env.L.E {
		switch ev.Kind {
		case "fire":
			fires++
			at := toInt64(ev.V)
			// never early: the k-th firing cannot come before k intervals (or the due time) have elapsed
			var due int64
			if t.Kind == "cycle" {
				due = int64(fires) * t.IntMs * ms
			} else {
				due = t.DueMs * ms
			}
			if at < due {
				vl.add("C13/fired-early-or-too-often", "host clock: firing #%d delivered after %dns, not due before %dns (definition %s)", fires, at, due, t.Spec)
			}
		case "cancel":
			cancelled = true
		case "hostclock":
			actual = append(actual, toInt64(ev.V))
			if cancelled {
				continue
			}
			tt := *t
			tt.Steps = actual
			want, _ := tt.expectedFirings()
			if t.Kind != "cycle" {
				if fires != want[len(want)-1] {
					vl.add("C13/wrong-count", "host clock: after %dns %d firing(s) delivered, definition %s prescribes %d", actual[len(actual)-1], fires, t.Spec, want[len(want)-1])
				}
			} else {
				// on a continuously running clock a cycle timer fires every interval
				n := int(actual[len(actual)-1] / (t.IntMs * ms))
				if t.Reps >= 0 && n > t.Reps {
					n = t.Reps
				}
				if fires > n {
					vl.add("C13/fired-early-or-too-often", "host clock: %d firing(s) after %dns of a cycle with interval %dms and %d repetitions", fires, actual[len(actual)-1], t.IntMs, t.Reps)
				}
				if fires < n-1 {
					vl.add("C13/missed-firing", "host clock: only %d firing(s) after %dns of a cycle with interval %dms", fires, actual[len(actual)-1], t.IntMs)
				}
			}
		case "fatal":
			vl.add("C13/harness", "%s", ev.A)
		}
	}
	o.Viol = vl.v
	o.Nontrivial = len(t.Steps) > 1
	probe(o, "host-clock", true)
	probe(o, "fired", fires > 0)
	o.Sample = map[string]any{"definition": t.Spec, "sleep_until_ns": t.Steps, "hostClock": true, "fired": fires}
	return o
}

func toInt64(v any) int64 {
	switch x := v.(type) {
	case int64:
		return x
	case int:
		return int64(x)
	case float64:
		return int64(x)
	}
	return 0
}
