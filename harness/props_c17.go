package zzverif

import (
	"strings"

	"verif/sim/simrt"
)

// ---------- C17: no data race and no panic inside the engine under concurrent use ----------
//
// The scenarios of C01 / C03 / C06 / C08 / C10 / C11 are run in the race build with a widened client
// side. The Go race detector runs inside the simulation with the scheduler hand-off hidden from it
// (simrt brackets every hand-off in RaceDisable/RaceEnable), so a race is reported on every schedule
// that merely executes both accesses. Reports are attributed by ./check (innermost frame of one of the
// two accesses in a non-test file of the module).

type c17Case struct {
	Family string `json:"family"`
	Inner  Case   `json:"inner"`
}

func (c *c17Case) Prepare() error { return c.Inner.Prepare() }
func (c *c17Case) Main()          { c.Inner.Main() }
func (c *c17Case) Env() *Env      { return c.Inner.Env() }

func genC17(d *Draw) Case {
	fams := []string{"C01", "C03", "C06", "C08", "C10", "C11", "C04", "C14", "C05", "TIM", "C18"}
	fam := fams[d.N(len(fams))]
	var inner Case
	switch fam {
	case "C01":
		opts := ProgOpts{Kinds: []string{"seq", "xor", "and", "or", "loop", "sub", "condtask"}, MaxDepth: 1 + d.N(2), MaxTasks: 3 + d.N(6), OrEarlyEnd: true, ActivityDefault: true, EmptyBranches: true, Fuse: true, Throws: true}
		prog := GenProgram(d, opts)
		pc := &ProcCase{Prog: prog, Buf: d.N(17), Hold: d.N(3)}
		pc.Picks = drawPicks(d, 48)
		inner = pc
	case "C03":
		inner = genC03(d)
	case "C04":
		inner = genC04(d)
	case "C06":
		inner = genC06(d)
	case "C08":
		inner = genC08(d)
	case "C10":
		inner = genC10(d)
	case "C11":
		inner = genC11(d)
	case "C14":
		inner = genC14(d)
	case "C05":
		inner = genC05(d)
	case "TIM":
		inner = genC07Timers(d) // timer catch events on a mock clock that is jumped while tasks are answered
	case "C18":
		inner = genC18(d) // a process set: several instances, message flows, throws
	}
	if pc, ok := inner.(*ProcCase); ok {
		pc.Stress = &Stress{Subs: d.N(3), Readers: d.N(3), ConcAnswers: d.Bool(), Waiters: d.N(3)}
	}
	return &c17Case{Family: fam, Inner: inner}
}

func checkC17(cc Case, r *simrt.Result) *Outcome {
	c := cc.(*c17Case)
	o := &Outcome{}
	var vl vlist
	for _, p := range r.Panics {
		vl.add("C17/panic", "%s", p)
	}
	var io *Outcome
	switch c.Family {
	case "C01", "TIM":
		io = Props["C01"].Check(c.Inner, r)
	default:
		io = Props[c.Family].Check(c.Inner, r)
	}
	// the outcome must still be one the sequential semantics allows; families whose own check has open
	// known findings (C10) contribute only to the race / panic oracles
	if c.Family != "C10" {
		for _, v := range io.Viol {
			if strings.HasSuffix(v.Clause, "/panic") {
				continue
			}
			vl.add("C17/outcome", "[%s scenario] %s: %s", c.Family, v.Clause, v.Detail)
		}
	}
	o.Viol = vl.v
	o.Nontrivial = r.Switches > 0
	o.Probes = map[string]int{"family-" + c.Family: 1}
	o.Sample = map[string]any{"family": c.Family, "scenario": io.Sample}
	if pc, ok := c.Inner.(*ProcCase); ok {
		o.Sample = map[string]any{"family": c.Family, "scenario": io.Sample, "stress": pc.Stress}
	}
	return o
}

func init() {
	Props["C17"] = &Scenario{Gen: genC17, Check: checkC17, MaxSteps: 120000}
}
