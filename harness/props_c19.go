package zzverif

import (
	"encoding/xml"
	"fmt"
	"math"
	"math/rand"
	"sort"
	"strings"
	"time"

	"verif/sim/simrt"

	"github.com/olive-io/bpmn/schema"
)

// ---------- C19: builder output is well-formed, executable and laid out without overlap ----------
//
// What the simulator decides: the ids the builders hand out come from the clock (RandBytes seeds a
// generator from time.Now() on every call), so "ids are unique" is a property of the clock history:
// under the simulator the clock is the fake one and stands still while nothing blocks. And "runs to
// completion requesting the added activities once each in insertion order" is decided by running the
// engine on the (re-parsed) builder output under a seeded schedule and answer plan, against the token
// game of the chain that was asked for. The remaining clauses (referential integrity, layout geometry)
// are evaluated on the same builder output before each run.

type ActSpec struct {
	Type string `json:"type"`
	ID   string `json:"id,omitempty"` // preset id ("" = the builder chooses)
}

type BuilderCase struct {
	*ProcCase
	Procs      [][]ActSpec `json:"procs"`
	Cfg        []float64   `json:"cfg"` // StartX StartY ColumnGap RowGap ProcessGap
	DefaultCfg bool        `json:"defaultCfg"`
	Reparsed   bool        `json:"reparsed"` // run the engine on the re-parsed XML (else on the builder's own model)
	SleepMs    int         `json:"sleepMs"`  // simulated time that passes between two builder calls (0: the clock stands still)
	Reuse      bool        `json:"reuse"`    // one ProcessBuilder builds all the processes (Out() resets it) instead of a fresh one each
	ConcBuild  bool        `json:"concBuild"` // every process is built by its own goroutine (own builder), all at the same time
	Seed       int64       `json:"seed"`
	// a process of another shape (forks that join again or end each on its own, sub-processes, several end events),
	// parsed from a generated document and handed to DefinitionBuilder.AddProcess next to a chain: laid out too
	Shape      *Program    `json:"shape,omitempty"`
	viol       vlist
	failed     bool
	nacts      int
	emptySub   bool
}

var c19ActTypes = []string{"task", "businessRuleTask", "userTask", "callActivity", "manualTask", "sendTask", "scriptTask", "serviceTask", "receiveTask", "subProcess", "subProcessWithBody"}

func newActivity(typ string, k int) schema.ActivityInterface {
	switch typ {
	case "task":
		return &schema.Task{}
	case "businessRuleTask":
		return &schema.BusinessRuleTask{}
	case "userTask":
		return &schema.UserTask{}
	case "callActivity":
		return &schema.CallActivity{}
	case "manualTask":
		return &schema.ManualTask{}
	case "sendTask":
		return &schema.SendTask{}
	case "scriptTask":
		return &schema.ScriptTask{}
	case "serviceTask":
		return &schema.ServiceTask{}
	case "receiveTask":
		return &schema.ReceiveTask{}
	case "subProcess":
		return &schema.SubProcess{}
	case "subProcessWithBody":
		// the builder has no call for the content of a sub-process: the caller fills it in (start -> end)
		sp := &schema.SubProcess{}
		st, en, fl := schema.StartEvent{}, schema.EndEvent{}, schema.SequenceFlow{}
		sid, eid, fid := fmt.Sprintf("SP%d_start", k), fmt.Sprintf("SP%d_end", k), fmt.Sprintf("SP%d_flow", k)
		st.IdField, en.IdField, fl.IdField = schema.NewStringP(sid), schema.NewStringP(eid), schema.NewStringP(fid)
		st.OutgoingField = []schema.QName{schema.QName(fid)}
		en.IncomingField = []schema.QName{schema.QName(fid)}
		fl.SourceRefField, fl.TargetRefField = schema.IdRef(sid), schema.IdRef(eid)
		sp.StartEventField = append(sp.StartEventField, st)
		sp.EndEventField = append(sp.EndEventField, en)
		sp.SequenceFlowField = append(sp.SequenceFlowField, fl)
		return sp
	}
	return &schema.Task{}
}

func genC19(d *Draw) Case {
	c := &BuilderCase{ProcCase: &ProcCase{Buf: d.N(17), Hold: d.N(3)}}
	np := 1 + d.N(3)
	preset := 0
	for p := 0; p < np; p++ {
		n := d.N(13)
		if d.N(3) == 0 {
			n = d.N(4)
		}
		var acts []ActSpec
		for i := 0; i < n; i++ {
			a := ActSpec{Type: c19ActTypes[d.N(len(c19ActTypes))]}
			if d.N(3) == 2 {
				preset++
				a.ID = fmt.Sprintf("Preset_%d", preset)
			}
			acts = append(acts, a)
		}
		c.Procs = append(c.Procs, acts)
	}
	c.DefaultCfg = d.N(3) == 0
	gaps := []float64{0, 50, 100, 120, 180, 300}
	origins := []float64{0, 96, -50, 1e6}
	c.Cfg = []float64{origins[d.N(len(origins))], origins[d.N(len(origins))], gaps[d.N(len(gaps))], gaps[d.N(len(gaps))], gaps[d.N(len(gaps))]}
	if c.DefaultCfg {
		dc := schema.DefaultAutoLayoutConfig()
		c.Cfg = []float64{dc.StartX, dc.StartY, dc.ColumnGap, dc.RowGap, dc.ProcessGap}
	}
	c.Reparsed = d.Bool()
	if d.Bool() {
		c.SleepMs = 1 + d.N(3)
	}
	switch d.N(4) {
	case 0:
		c.Reuse = true
	case 1:
		c.ConcBuild = np > 1
	}
	c.Seed = int64(d.N(1 << 30))
	c.Picks = drawPicks(d, 32)
	if d.N(3) == 2 {
		opts := ProgOpts{Kinds: []string{"seq", "xor", "and", "or", "sub", "condtask"}, MaxDepth: 1 + d.N(2), MaxTasks: 2 + d.N(6), OrEarlyEnd: true, EmptyBranches: d.Bool(), Throws: true}
		c.Shape = GenProgram(d, opts)
	}
	return c
}

// layoutShape: processes that did not come from a ProcessBuilder go through AddProcess and AutoLayout.
func (c *BuilderCase) layoutShape(cfg *schema.AutoLayoutConfig) {
	vl := &c.viol
	src, err := parseDefs(c.Shape.Defs.XML())
	if err != nil {
		vl.add("C19/harness", "shape document does not parse: %v", err)
		return
	}
	db := schema.NewDefinitionsBuilder()
	if c.Shape.Wrapped%2 == 0 {
		// in front of it, an ordinary chain from the process builder
		pb := schema.NewProcessBuilder()
		pb.AddActivity(&schema.Task{})
		db.AddProcess(*pb.Out())
	}
	for i := range *src.Processes() {
		db.AddProcess((*src.Processes())[i])
	}
	db.AutoLayout(cfg)
	out := db.Out()
	nodes, flows := c19collect(out)
	before := len(vl.v)
	c.checkLayout(out, nodes, flows, cfg, map[string]string{})
	for i := before; i < len(vl.v); i++ {
		vl.v[i].Detail = "[process added through AddProcess: " + c.Shape.Desc + "] " + vl.v[i].Detail
	}
}

func (c *BuilderCase) Env() *Env { return c.ProcCase.env }

// Main runs as the simulated main goroutine: the builders read the simulator's clock.
func (c *BuilderCase) Main() {
	c.build()
	if c.failed {
		return
	}
	c.ProcCase.Main()
}

func (c *BuilderCase) Prepare() error {
	c.ProcCase.env = &Env{picks: c.Picks}
	return nil
}

type c19node struct {
	id, typ  string
	in, out  []string
	proc     int
	isStart  bool
	isEnd    bool
}

func qnames(q *[]schema.QName) []string {
	if q == nil {
		return nil
	}
	var out []string
	for _, x := range *q {
		out = append(out, string(x))
	}
	return out
}

// collect lists the flow nodes and flows of every process of defs.
func c19collect(defs *schema.Definitions) (nodes []c19node, flows [][4]string) {
	for pi := range *defs.Processes() {
		p := &(*defs.Processes())[pi]
		for _, fe := range p.FlowElements() {
			fn, ok := fe.(schema.FlowNodeInterface)
			if !ok {
				continue
			}
			id := ""
			if s, ok := fn.Id(); ok && s != nil {
				id = *s
			}
			n := c19node{id: id, typ: strings.TrimPrefix(fmt.Sprintf("%T", fn), "*schema."), in: qnames(fn.Incomings()), out: qnames(fn.Outgoings()), proc: pi}
			_, n.isStart = fn.(*schema.StartEvent)
			_, n.isEnd = fn.(*schema.EndEvent)
			nodes = append(nodes, n)
		}
		for i := range *p.SequenceFlows() {
			f := &(*p.SequenceFlows())[i]
			id := ""
			if s, ok := f.Id(); ok && s != nil {
				id = *s
			}
			flows = append(flows, [4]string{id, string(*f.SourceRef()), string(*f.TargetRef()), fmt.Sprint(pi)})
		}
	}
	return
}

func hasStr(l []string, s string) bool {
	for _, x := range l {
		if x == s {
			return true
		}
	}
	return false
}

// build drives the builders and evaluates the structural clauses.
func (c *BuilderCase) build() {
	rand.Seed(c.Seed) // the builders may draw from math/rand's global source: make that replayable
	vl := &c.viol
	cfg := &schema.AutoLayoutConfig{StartX: c.Cfg[0], StartY: c.Cfg[1], ColumnGap: c.Cfg[2], RowGap: c.Cfg[3], ProcessGap: c.Cfg[4]}
	if c.DefaultCfg {
		cfg = schema.DefaultAutoLayoutConfig()
	}
	defs, want := buildWithBuilders(c.Procs, cfg, c.SleepMs, c.Reuse, c.ConcBuild)
	c.nacts = 0
	for _, p := range c.Procs {
		c.nacts += len(p)
	}

	// --- well-formedness ---
	nodes, flows := c19collect(defs)
	ids := map[string]string{}
	dup := false
	note := func(id, what string) {
		if id == "" {
			vl.add("C19/missing-id", "%s has no id", what)
			return
		}
		if prev, ok := ids[id]; ok {
			dup = true
			vl.add("C19/duplicate-id", "id %q is used by %s and by %s", id, prev, what)
			return
		}
		ids[id] = what
	}
	if s, ok := defs.Id(); ok && s != nil {
		note(*s, "the definitions element")
	}
	for pi := range *defs.Processes() {
		if s, ok := (*defs.Processes())[pi].Id(); ok && s != nil {
			note(*s, fmt.Sprintf("process #%d", pi+1))
		} else {
			note("", fmt.Sprintf("process #%d", pi+1))
		}
	}
	for _, n := range nodes {
		note(n.id, fmt.Sprintf("a %s of process #%d", n.typ, n.proc+1))
	}
	for _, f := range flows {
		note(f[0], "a sequence flow of process #"+f[3])
	}
	for i := range defs.CollaborationField {
		col := &defs.CollaborationField[i]
		if s, ok := col.Id(); ok && s != nil {
			note(*s, "a collaboration")
		}
		for j := range col.ParticipantField {
			if s, ok := col.ParticipantField[j].Id(); ok && s != nil {
				note(*s, "a participant")
			}
		}
	}
	nodeBy := map[string]*c19node{}
	for i := range nodes {
		nodeBy[fmt.Sprint(nodes[i].proc)+"/"+nodes[i].id] = &nodes[i]
	}
	flowBy := map[string][4]string{}
	for _, f := range flows {
		flowBy[f[3]+"/"+f[0]] = f
		pi := f[3]
		src, dst := nodeBy[pi+"/"+f[1]], nodeBy[pi+"/"+f[2]]
		if src == nil {
			vl.add("C19/dangling-flow", "sequence flow %s: its source %q is not a flow node of the process", f[0], f[1])
		} else if !hasStr(src.out, f[0]) {
			vl.add("C19/flow-not-listed", "sequence flow %s is not among the outgoing flows %v of its source %s (%s)", f[0], src.out, src.id, src.typ)
		}
		if dst == nil {
			vl.add("C19/dangling-flow", "sequence flow %s: its target %q is not a flow node of the process", f[0], f[2])
		} else if !hasStr(dst.in, f[0]) {
			vl.add("C19/flow-not-listed", "sequence flow %s is not among the incoming flows %v of its target %s (%s)", f[0], dst.in, dst.id, dst.typ)
		}
	}
	for _, n := range nodes {
		pi := fmt.Sprint(n.proc)
		if n.isStart && len(n.in) > 0 {
			vl.add("C19/start-has-incoming", "start event %s has incoming flows %v", n.id, n.in)
		}
		if n.isEnd && len(n.out) > 0 {
			vl.add("C19/end-has-outgoing", "end event %s has outgoing flows %v", n.id, n.out)
		}
		for _, fid := range n.in {
			if f, ok := flowBy[pi+"/"+fid]; !ok || f[2] != n.id {
				vl.add("C19/flow-not-listed", "%s %s lists incoming flow %s, which does not exist or does not end there", n.typ, n.id, fid)
			}
		}
		for _, fid := range n.out {
			if f, ok := flowBy[pi+"/"+fid]; !ok || f[1] != n.id {
				vl.add("C19/flow-not-listed", "%s %s lists outgoing flow %s, which does not exist or does not start there", n.typ, n.id, fid)
			}
		}
	}
	// what was asked for: per process start, the activities in insertion order, end
	for pi, acts := range c.Procs {
		var got []string
		for _, n := range nodes {
			if n.proc == pi && !n.isStart && !n.isEnd {
				got = append(got, n.typ)
			}
		}
		if len(got) != len(acts) {
			vl.add("C19/activities-lost", "process #%d: %d activities were added, the output holds %d (%v)", pi+1, len(acts), len(got), got)
		}
		for _, a := range acts {
			if a.ID != "" {
				if n := nodeBy[fmt.Sprint(pi)+"/"+a.ID]; n == nil {
					vl.add("C19/preset-id-lost", "process #%d: the activity added with preset id %s is not in the output under that id", pi+1, a.ID)
				}
			}
		}
	}

	// --- layout ---
	c.checkLayout(defs, nodes, flows, cfg, ids)
	if c.Shape != nil {
		c.layoutShape(cfg)
	}

	// --- round trip ---
	out, err := xml.Marshal(defs)
	var re *schema.Definitions
	if err != nil {
		vl.add("C19/marshal-error", "xml.Marshal of the builder output: %v", err)
	} else if re, err = schema.Parse(out); err != nil {
		vl.add("C19/reparse-error", "schema.Parse of the serialised builder output: %v", err)
		re = nil
	} else {
		p1, p2 := c19projection(defs), c19projection(re)
		if d := firstDiff(p1, p2); d != "" {
			vl.add("C19/round-trip-differs", "the re-parsed builder output differs from the builder output: %s", d)
		}
	}

	// --- the run: first (executable) process; model = the chain that was asked for ---
	if dup || len(nodes) == 0 {
		c.failed = true // with ambiguous ids there is no diagram to speak of; the finding is recorded above
		return
	}
	g := &Graph{ID: "P1", Executable: true}
	if s, ok := (*defs.Processes())[0].Id(); ok && s != nil {
		g.ID = *s
	}
	md := &Definitions{Procs: []*Graph{g}}
	chain := want[0]
	for i, n := range chain {
		switch {
		case i == 0:
			g.addNode(&Node{ID: n[0], Kind: "start"})
		case i == len(chain)-1:
			g.addNode(&Node{ID: n[0], Kind: "end"})
		case n[1] == "subProcess":
			g.addNode(&Node{ID: n[0], Kind: "sub", Sub: &Graph{ID: n[0] + "_body"}})
			c.emptySub = true
		case n[1] == "subProcessWithBody":
			sg := &Graph{ID: n[0] + "_body"}
			sg.addNode(&Node{ID: n[0] + "_s", Kind: "start"})
			sg.addNode(&Node{ID: n[0] + "_e", Kind: "end"})
			sg.connect(md, n[0]+"_s", n[0]+"_e", nil, -1)
			g.addNode(&Node{ID: n[0], Kind: "sub", Sub: sg})
		default:
			g.addNode(&Node{ID: n[0], Kind: "task"})
		}
		if i > 0 {
			g.connect(md, chain[i-1][0], n[0], nil, -1)
		}
	}
	g.index()
	c.Prog = &Program{Defs: md, Vars: map[string]any{}, Desc: fmt.Sprintf("builder chain of %d activities (%d processes), reparsed=%v", len(chain)-2, len(c.Procs), c.Reparsed)}
	c.ProcCase.defs = defs
	if c.Reparsed {
		if re == nil {
			c.failed = true
			return
		}
		c.ProcCase.defs = re
	}
}

// buildWithBuilders is the code under test driven the documented way. want lists, per process, the
// (id, type) chain start, activities..., end as read back from the output of the process builder.
func buildWithBuilders(procs [][]ActSpec, cfg *schema.AutoLayoutConfig, sleepMs int, reuse, conc bool) (*schema.Definitions, [][][2]string) {
	tick := func() {
		if sleepMs > 0 {
			time.Sleep(time.Duration(sleepMs) * time.Millisecond)
		}
	}
	db := schema.NewDefinitionsBuilder()
	want := make([][][2]string, len(procs))
	built := make([]*schema.Process, len(procs))
	nact := 0
	base := make([]int, len(procs))
	for pi, acts := range procs {
		base[pi] = nact
		nact += len(acts)
	}
	var shared *schema.ProcessBuilder
	if reuse {
		shared = schema.NewProcessBuilder()
	}
	buildOne := func(pi int) {
		acts := procs[pi]
		tick()
		pb := shared
		if pb == nil {
			pb = schema.NewProcessBuilder()
		}
		var objs []schema.ActivityInterface
		for ai, a := range acts {
			act := newActivity(a.Type, base[pi]+ai+1)
			if a.ID != "" {
				act.SetId(schema.NewStringP(a.ID))
			}
			tick()
			pb.AddActivity(act)
			objs = append(objs, act)
		}
		tick()
		p := pb.Out()
		var chain [][2]string
		if len(p.StartEventField) > 0 {
			if s, ok := p.StartEventField[0].Id(); ok && s != nil {
				chain = append(chain, [2]string{*s, "start"})
			}
		}
		for i, o := range objs {
			id := ""
			if s, ok := o.Id(); ok && s != nil {
				id = *s
			}
			chain = append(chain, [2]string{id, acts[i].Type})
		}
		if len(p.EndEventField) > 0 {
			if s, ok := p.EndEventField[0].Id(); ok && s != nil {
				chain = append(chain, [2]string{*s, "end"})
			}
		}
		want[pi] = chain
		built[pi] = p
	}
	if conc && !reuse {
		// several clients build their processes at the same time, each with a builder of its own
		done := make(chan int, len(procs))
		for pi := range procs {
			pi := pi
			go func() {
				buildOne(pi)
				done <- pi
			}()
		}
		for range procs {
			<-done
		}
	} else {
		for pi := range procs {
			buildOne(pi)
		}
	}
	for _, p := range built {
		tick()
		db.AddProcess(*p)
	}
	tick()
	db.AutoLayout(cfg)
	return db.Out(), want
}

func finite(v ...float64) bool {
	for _, x := range v {
		if math.IsNaN(x) || math.IsInf(x, 0) {
			return false
		}
	}
	return true
}

func (c *BuilderCase) checkLayout(defs *schema.Definitions, nodes []c19node, flows [][4]string, cfg *schema.AutoLayoutConfig, ids map[string]string) {
	vl := &c.viol
	if defs.DiagramField == nil || defs.DiagramField.BPMNPlaneField == nil {
		if len(nodes) > 0 {
			vl.add("C19/no-diagram", "AutoLayout produced no diagram / plane")
		}
		return
	}
	plane := defs.DiagramField.BPMNPlaneField
	type rect struct{ x, y, w, h float64 }
	shapeOf := map[string]rect{}
	nshape := map[string]int{}
	for i := range plane.BPMNShapeFields {
		s := &plane.BPMNShapeFields[i]
		el := ""
		if s.BpmnElementField != nil {
			el = string(*s.BpmnElementField)
		}
		nshape[el]++
		if s.BoundsField == nil {
			vl.add("C19/shape-without-bounds", "the shape of %s has no bounds", el)
			continue
		}
		b := s.BoundsField
		if !finite(b.XField, b.YField, b.WidthField, b.HeightField) || b.WidthField <= 0 || b.HeightField <= 0 {
			vl.add("C19/shape-not-finite", "the shape of %s has bounds x=%v y=%v w=%v h=%v", el, b.XField, b.YField, b.WidthField, b.HeightField)
		}
		shapeOf[el] = rect{b.XField, b.YField, b.WidthField, b.HeightField}
	}
	for _, n := range nodes {
		if nshape[n.id] != 1 {
			vl.add("C19/shape-count", "flow node %s (%s) has %d shapes, exactly one is required", n.id, n.typ, nshape[n.id])
		}
	}
	if len(plane.BPMNShapeFields) != len(nodes) {
		vl.add("C19/shape-count", "%d shapes for %d flow nodes", len(plane.BPMNShapeFields), len(nodes))
	}
	nedge := map[string]int{}
	on := func(px, py float64, r rect) bool {
		const eps = 1e-6
		return px >= r.x-eps && px <= r.x+r.w+eps && py >= r.y-eps && py <= r.y+r.h+eps
	}
	flowEnds := map[string][2]string{}
	for _, f := range flows {
		flowEnds[f[0]] = [2]string{f[1], f[2]}
	}
	for i := range plane.BPMNEdgeFields {
		e := &plane.BPMNEdgeFields[i]
		el := ""
		if e.BpmnElementField != nil {
			el = string(*e.BpmnElementField)
		}
		nedge[el]++
		wp := e.WaypointField
		if len(wp) < 2 {
			vl.add("C19/edge-waypoints", "the edge of flow %s has %d waypoint(s)", el, len(wp))
			continue
		}
		for _, p := range wp {
			if !finite(p.XField, p.YField) {
				vl.add("C19/edge-not-finite", "the edge of flow %s has a waypoint (%v, %v)", el, p.XField, p.YField)
			}
		}
		ends, ok := flowEnds[el]
		if !ok {
			vl.add("C19/edge-count", "an edge refers to %q, which is not a sequence flow", el)
			continue
		}
		if r, ok := shapeOf[ends[0]]; ok && !on(wp[0].XField, wp[0].YField, r) {
			vl.add("C19/edge-off-shape", "the edge of flow %s starts at (%v, %v), which is not on its source shape %+v", el, wp[0].XField, wp[0].YField, r)
		}
		last := wp[len(wp)-1]
		if r, ok := shapeOf[ends[1]]; ok && !on(last.XField, last.YField, r) {
			vl.add("C19/edge-off-shape", "the edge of flow %s ends at (%v, %v), which is not on its target shape %+v", el, last.XField, last.YField, r)
		}
	}
	for _, f := range flows {
		if nedge[f[0]] != 1 {
			vl.add("C19/edge-count", "sequence flow %s has %d edges, exactly one is required", f[0], nedge[f[0]])
		}
	}
	// no overlap whenever the gaps are at least the node sizes (the largest default size is 120 x 100)
	if cfg.ColumnGap >= 120 && cfg.RowGap >= 100 && cfg.ProcessGap >= 100 {
		var els []string
		for el := range shapeOf {
			els = append(els, el)
		}
		sort.Strings(els)
		for i := 0; i < len(els); i++ {
			for j := i + 1; j < len(els); j++ {
				a, b := shapeOf[els[i]], shapeOf[els[j]]
				if a.x < b.x+b.w && b.x < a.x+a.w && a.y < b.y+b.h && b.y < a.y+a.h {
					vl.add("C19/shapes-overlap", "the shapes of %s %+v and %s %+v overlap (gaps: column %v row %v process %v)", els[i], a, els[j], b, cfg.ColumnGap, cfg.RowGap, cfg.ProcessGap)
				}
			}
		}
	}
	// diagram ids take part in the uniqueness clause
	dup := func(id *schema.Id, what string) {
		if id == nil || *id == "" {
			return
		}
		if prev, ok := ids[*id]; ok {
			vl.add("C19/duplicate-id", "id %q is used by %s and by %s", *id, prev, what)
			return
		}
		ids[*id] = what
	}
	if s, ok := defs.DiagramField.Id(); ok {
		dup(s, "the diagram")
	}
	if s, ok := plane.Id(); ok {
		dup(s, "the plane")
	}
	for i := range plane.BPMNShapeFields {
		if s, ok := plane.BPMNShapeFields[i].Id(); ok {
			dup(s, "a shape")
		}
	}
	for i := range plane.BPMNEdgeFields {
		if s, ok := plane.BPMNEdgeFields[i].Id(); ok {
			dup(s, "an edge")
		}
	}
}

// c19projection lists what has to survive the round trip, in a canonical order.
func c19projection(defs *schema.Definitions) []string {
	var out []string
	sp := func(p *string) string {
		if p == nil {
			return "<absent>"
		}
		return *p
	}
	out = append(out, fmt.Sprintf("definitions id=%s expressionLanguage=%s typeLanguage=%s exporter=%s exporterVersion=%s targetNamespace=%s",
		sp(defs.IdField), sp(defs.ExpressionLanguageField), sp(defs.TypeLanguageField), sp(defs.ExporterField), sp(defs.ExporterVersionField), defs.TargetNamespaceField))
	for pi := range *defs.Processes() {
		p := &(*defs.Processes())[pi]
		id := ""
		if s, ok := p.Id(); ok && s != nil {
			id = *s
		}
		ex := "absent"
		if p.IsExecutableField != nil {
			ex = fmt.Sprint(*p.IsExecutableField)
		}
		out = append(out, fmt.Sprintf("process %d %s executable=%v", pi, id, ex))
	}
	nodes, flows := c19collect(defs)
	for _, n := range nodes {
		out = append(out, fmt.Sprintf("node %d %s %s in=%v out=%v", n.proc, n.id, n.typ, n.in, n.out))
	}
	for _, f := range flows {
		out = append(out, fmt.Sprintf("flow %s %s %s->%s", f[3], f[0], f[1], f[2]))
	}
	for i := range defs.CollaborationField {
		for j := range defs.CollaborationField[i].ParticipantField {
			pt := &defs.CollaborationField[i].ParticipantField[j]
			ref := ""
			if pt.ProcessRefField != nil {
				ref = string(*pt.ProcessRefField)
			}
			out = append(out, "participant -> "+ref)
		}
	}
	if defs.DiagramField != nil && defs.DiagramField.BPMNPlaneField != nil {
		pl := defs.DiagramField.BPMNPlaneField
		for i := range pl.BPMNShapeFields {
			s := &pl.BPMNShapeFields[i]
			el := ""
			if s.BpmnElementField != nil {
				el = string(*s.BpmnElementField)
			}
			if s.BoundsField != nil {
				out = append(out, fmt.Sprintf("shape %s %v %v %v %v", el, s.BoundsField.XField, s.BoundsField.YField, s.BoundsField.WidthField, s.BoundsField.HeightField))
			} else {
				out = append(out, "shape "+el+" no bounds")
			}
		}
		for i := range pl.BPMNEdgeFields {
			e := &pl.BPMNEdgeFields[i]
			el := ""
			if e.BpmnElementField != nil {
				el = string(*e.BpmnElementField)
			}
			pts := ""
			for _, p := range e.WaypointField {
				pts += fmt.Sprintf(" (%v,%v)", p.XField, p.YField)
			}
			out = append(out, "edge "+el+pts)
		}
	}
	sort.Strings(out)
	return out
}

func firstDiff(a, b []string) string {
	am := map[string]int{}
	for _, x := range a {
		am[x]++
	}
	for _, x := range b {
		am[x]--
	}
	var lost, extra []string
	for k, n := range am {
		if n > 0 {
			lost = append(lost, k)
		} else if n < 0 {
			extra = append(extra, k)
		}
	}
	sort.Strings(lost)
	sort.Strings(extra)
	if len(lost) == 0 && len(extra) == 0 {
		return ""
	}
	if len(lost) > 2 {
		lost = lost[:2]
	}
	if len(extra) > 2 {
		extra = extra[:2]
	}
	return fmt.Sprintf("only before: %v; only after: %v", lost, extra)
}

func checkC19(cc Case, r *simrt.Result) *Outcome {
	c := cc.(*BuilderCase)
	o := &Outcome{}
	var vl vlist
	vl.v = append(vl.v, c.viol.v...)
	probe(o, "zero-activities", len(c.Procs[0]) == 0)
	probe(o, "several-processes", len(c.Procs) > 1)
	probe(o, "default-layout-config", c.DefaultCfg)
	probe(o, "engine-ran-on-reparsed-output", c.Reparsed && !c.failed)
	probe(o, "clock-stands-still-between-builder-calls", c.SleepMs == 0)
	probe(o, "one-builder-reused-for-several-processes", c.Reuse && len(c.Procs) > 1)
	probe(o, "processes-built-by-concurrent-goroutines", c.ConcBuild)
	probe(o, "a-process-of-another-shape-laid-out-through-AddProcess", c.Shape != nil)
	if c.failed {
		o.Viol = vl.v
		o.Sample = map[string]any{"procs": c.Procs, "run": "not started"}
		return o
	}
	genericRunViolations("C19", r, &vl)
	for _, p := range r.Panics {
		vl.add("C19/panic", "%s", p)
	}
	tg := CheckTokenGame("C19", c.Prog, c.env.L.E)
	vl.v = append(vl.v, tg.Viol...)
	// insertion order: the requests arrive in the order in which the activities were added
	var order []string
	for _, ev := range c.env.L.E {
		if ev.Kind == "t:task" {
			order = append(order, ev.A)
		}
	}
	var wantOrder []string
	for _, n := range c.Prog.Defs.Procs[0].Nodes {
		if n.Kind == "task" {
			wantOrder = append(wantOrder, n.ID)
		}
	}
	if tg.Quiesced && len(tg.Viol) == 0 && strings.Join(order, ",") != strings.Join(wantOrder, ",") {
		vl.add("C19/order", "the activities were requested in the order %v, they were added in the order %v", order, wantOrder)
	}
	complete := false
	for _, ev := range c.env.L.E {
		if ev.Kind == "complete" && ev.A == "true" {
			complete = true
		}
	}
	if tg.Quiesced && len(tg.Viol) == 0 && !complete {
		vl.add("C19/not-complete", "every activity was answered but the instance did not complete")
	}
	o.Viol = vl.v
	if c.emptySub {
		o.Tags = append(o.Tags, "empty-subprocess-activity")
	}
	probe(o, "sub-process-with-body", strings.Contains(fmt.Sprint(c.Procs[0]), "subProcessWithBody"))
	o.Nontrivial = r.Switches > 0 && len(wantOrder) >= 1
	o.Sample = map[string]any{"program": c.Prog.Desc, "procs": c.Procs, "cfg": c.Cfg, "requests": tg.Requests}
	return o
}

func init() {
	Props["C19"] = &Scenario{Gen: genC19, Check: checkC19}
}
