package zzverif

import (
	"fmt"
	"strings"

	"verif/sim/simrt"
)

// ---------- C02: completion iff all start events fired and no token remains ----------

// genC02Boundary: a token that comes into being at a boundary event. The host waits, a non-interrupting boundary
// event fires (the event is handed over before anything is answered), its branch holds a task; the host is answered and
// the main token reaches its end event while that task may still be pending: completion only when both are through.
func genC02Boundary(d *Draw) Case {
	defs := &Definitions{}
	g := &Graph{ID: "P1", Executable: true}
	defs.Procs = []*Graph{g}
	defs.Signals = []string{"sB1"}
	mk := func(id string) *Node {
		return g.addNode(&Node{ID: id, Kind: "task", Results: []string{"r_" + id}})
	}
	g.addNode(&Node{ID: "S1", Kind: "start"})
	mk("H")
	g.connect(defs, "S1", "H", nil, -1)
	cur := "H"
	for i, n := 0, d.N(3); i < n; i++ {
		t := mk(fmt.Sprintf("N%d", i+1))
		g.connect(defs, cur, t.ID, nil, -1)
		cur = t.ID
	}
	g.addNode(&Node{ID: "EN", Kind: "end"})
	g.connect(defs, cur, "EN", nil, -1)
	g.addNode(&Node{ID: "B1", Kind: "boundary", Attached: "H", Interrupting: false, Events: []EventDef{{Kind: "signal", Ref: "sB1"}}})
	cur = "B1"
	for i, n := 0, 1+d.N(2); i < n; i++ {
		t := mk(fmt.Sprintf("X%d", i+1))
		g.connect(defs, cur, t.ID, nil, -1)
		cur = t.ID
	}
	if d.Bool() {
		// the boundary branch forks once more
		g.addNode(&Node{ID: "XF", Kind: "and"})
		g.connect(defs, cur, "XF", nil, -1)
		for i := 1; i <= 2; i++ {
			t := mk(fmt.Sprintf("Y%d", i))
			g.connect(defs, "XF", t.ID, nil, -1)
			e := g.addNode(&Node{ID: fmt.Sprintf("EY%d", i), Kind: "end"})
			g.connect(defs, t.ID, e.ID, nil, -1)
		}
	} else {
		g.addNode(&Node{ID: "EX", Kind: "end"})
		g.connect(defs, cur, "EX", nil, -1)
	}
	g.index()
	c := &ProcCase{Buf: d.N(17), Hold: 2}
	c.Events = []EvPlan{{Kind: "signal", Ref: "sB1", First: true}}
	nw := 1 + d.N(3)
	for i := 0; i < nw; i++ {
		wp := WaiterPlan{}
		if i > 0 && d.N(3) == 2 {
			wp.TimeoutMs = 500 + 1000*d.N(3)
			wp.Again = true
		}
		if d.N(3) == 2 {
			wp.Repeat = 1 + d.N(2)
		}
		c.Waiters = append(c.Waiters, wp)
	}
	c.Picks = drawPicks(d, 24)
	c.Prog = &Program{Defs: defs, Vars: map[string]any{}, Tags: []string{"token-born-at-a-boundary-event"}, Desc: "host H with a non-interrupting boundary event that fires while H waits; tasks on both paths"}
	c.Meta = map[string]int{"k": 1, "boundary": 1}
	return c
}

func genC02(d *Draw) Case {
	if d.N(8) == 7 {
		return genC02Boundary(d)
	}
	defs := &Definitions{}
	g := &Graph{ID: "P1", Executable: true}
	defs.Procs = []*Graph{g}
	k := 1 + d.N(3) // start events
	shape := d.N(3) // 0: separate ends, 1: exclusive merge + common task, 2: parallel join of the start branches
	if k == 1 {
		shape = 0
	}
	// 3: every start branch forks (parallel gateway, no join) into branches that end on their own: at an end
	// event, or silently at a node without outgoing flow; "no token remains" then has to count forked tokens
	if d.N(3) == 2 {
		shape = 3
	}
	mk := func(id string) *Node {
		return g.addNode(&Node{ID: id, Kind: "task", Results: []string{"r_" + id}})
	}
	tags := map[string]bool{}
	if k > 1 {
		tags["multi-start"] = true
	}
	var lasts []string
	for i := 1; i <= k; i++ {
		s := g.addNode(&Node{ID: fmt.Sprintf("S%d", i), Kind: "start"})
		cur := s.ID
		nt := d.N(3)
		for j := 0; j < nt; j++ {
			t := mk(fmt.Sprintf("T%d_%d", i, j+1))
			g.connect(defs, cur, t.ID, nil, -1)
			cur = t.ID
		}
		lasts = append(lasts, cur)
	}
	switch shape {
	case 3:
		tags["fork-no-join"] = true
		nth := 0
		for i, l := range lasts {
			fk := g.addNode(&Node{ID: fmt.Sprintf("F%d", i+1), Kind: "and"})
			g.connect(defs, l, fk.ID, nil, -1)
			nb := 2 + d.N(2)
			for b := 1; b <= nb; b++ {
				cur := fk.ID
				for j, nn := 0, d.N(3); j < nn; j++ {
					var n *Node
					if d.Bool() {
						n = mk(fmt.Sprintf("B%d_%d_%d", i+1, b, j+1))
					} else {
						nth++
						n = g.addNode(&Node{ID: fmt.Sprintf("TH%d", nth), Kind: "throw"})
					}
					g.connect(defs, cur, n.ID, nil, -1)
					cur = n.ID
				}
				switch d.N(3) {
				case 0:
					e := g.addNode(&Node{ID: fmt.Sprintf("E%d_%d", i+1, b), Kind: "end"})
					g.connect(defs, cur, e.ID, nil, -1)
				case 1:
					// dead end: a throw event without outgoing flow (the token ends without a trace)
					nth++
					n := g.addNode(&Node{ID: fmt.Sprintf("TH%d", nth), Kind: "throw"})
					g.connect(defs, cur, n.ID, nil, -1)
				case 2:
					n := mk(fmt.Sprintf("D%d_%d", i+1, b))
					g.connect(defs, cur, n.ID, nil, -1)
				}
			}
		}
	case 0:
		for i, l := range lasts {
			e := g.addNode(&Node{ID: fmt.Sprintf("E%d", i+1), Kind: "end"})
			g.connect(defs, l, e.ID, nil, -1)
		}
	case 1:
		g.addNode(&Node{ID: "XM", Kind: "xor"})
		for _, l := range lasts {
			g.connect(defs, l, "XM", nil, -1)
		}
		mk("TC")
		g.connect(defs, "XM", "TC", nil, -1)
		g.addNode(&Node{ID: "End", Kind: "end"})
		g.connect(defs, "TC", "End", nil, -1)
	case 2:
		g.addNode(&Node{ID: "AJ", Kind: "and"})
		for _, l := range lasts {
			g.connect(defs, l, "AJ", nil, -1)
		}
		mk("TC")
		g.connect(defs, "AJ", "TC", nil, -1)
		g.addNode(&Node{ID: "End", Kind: "end"})
		g.connect(defs, "TC", "End", nil, -1)
	}
	g.index()
	c := &ProcCase{Buf: d.N(17), Hold: d.N(3)}
	c.StartMode = d.N(3)
	desc := fmt.Sprintf("starts=%d shape=%d startMode=%d", k, shape, c.StartMode)
	if c.StartMode != 0 && k > 1 && d.N(4) == 3 {
		// fire only a strict subset of the start events: the instance must never report completion
		n := 1 + d.N(k-1)
		for i := 1; i <= n; i++ {
			c.StartOnly = append(c.StartOnly, fmt.Sprintf("S%d", i))
		}
		desc += fmt.Sprintf(" only=%v", c.StartOnly)
	}
	nw := 1 + d.N(3)
	for i := 0; i < nw; i++ {
		wp := WaiterPlan{}
		if d.N(3) == 2 {
			wp.TimeoutMs = 500 + 1000*d.N(3)
			wp.Again = d.N(4) != 3
			tags["timed-waiter"] = true
		}
		if d.N(3) == 2 {
			wp.DelayMs = 100 + 1500*d.N(3)
		}
		if d.N(4) == 3 {
			wp.Repeat = 1 + d.N(2)
			tags["repeated-wait"] = true
		}
		c.Waiters = append(c.Waiters, wp)
	}
	plain := false
	for _, wp := range c.Waiters {
		if wp.TimeoutMs == 0 || wp.Again {
			plain = true
		}
	}
	if !plain {
		// at least one client must be able to observe completion
		c.Waiters = append(c.Waiters, WaiterPlan{})
	}
	if d.N(2) == 1 {
		c.AnsDelayMs = 700 * (1 + d.N(3))
	}
	c.Picks = drawPicks(d, 24)
	c.Shutdown = d.N(4) == 3
	if shape == 3 && d.Bool() {
		// a slow subscriber: back-pressure through the tracer holds flows in their first Send
		c.ExtraObs = 1
		c.SlowObsMs = 1 + d.N(3)
		c.SlowAll = true
	}
	var tl []string
	for t := range tags {
		tl = append(tl, t)
	}
	c.Prog = &Program{Defs: defs, Vars: map[string]any{}, Desc: desc, Tags: tl}
	c.Meta = map[string]int{"k": k}
	return c
}

var flowTraceKinds = map[string]bool{"t:visit": true, "t:leave": true, "t:flow": true, "t:newflow": true, "t:term": true, "t:completion": true, "t:task": true}

func checkC02(cc Case, r *simrt.Result) *Outcome {
	c := cc.(*ProcCase)
	o := &Outcome{}
	var vl vlist
	genericRunViolations("C02", r, &vl)
	tg := CheckTokenGame("C02", c.Prog, c.env.L.E)
	vl.v = append(vl.v, tg.Viol...)
	for _, p := range r.Panics {
		vl.add("C02/panic", "%s", p)
	}
	// per-waiter outcomes and call returns
	type wst struct {
		calls, rets, trues int
		lastOK          bool
		lastExpired     bool
	}
	ws := map[int]*wst{}
	startCalls, startRets := 0, 0
	ceaseAt := int64(-1)
	quiescent := false
	cancelled := false
	for _, ev := range c.env.L.E {
		switch ev.Kind {
		case "wait":
			if ws[ev.G] == nil {
				ws[ev.G] = &wst{}
			}
			ws[ev.G].calls++
		case "complete":
			w := ws[ev.G]
			if w == nil {
				continue
			}
			if !quiescent && !cancelled {
				w.rets++
				w.lastOK = ev.A == "true"
				w.lastExpired = ev.B == "true"
				if w.lastOK {
					w.trues++
				}
				if !w.lastOK && !w.lastExpired {
					vl.add("C02/wait-false-without-expiry", "step %d: waiter %d got false although its context had not expired", ev.Step, ev.G)
				}
			}
		case "startall", "startwith":
			startCalls++
		case "startall-ret", "startwith-ret":
			if !quiescent {
				startRets++
			}
		case "t:cease":
			if ev.A == "P1" && ceaseAt < 0 {
				ceaseAt = ev.Step
			}
		case "quiescent":
			quiescent = true
		case "cancel":
			cancelled = true
		default:
			if ceaseAt >= 0 && !cancelled && flowTraceKinds[ev.Kind] {
				vl.add("C02/trace-after-cease", "step %d: %s %s observed after the CeaseFlowTrace (step %d)", ev.Step, ev.Kind, ev.A, ceaseAt)
			}
		}
	}
	if tg.Quiesced && len(tg.Viol) == 0 {
		if startRets != startCalls {
			vl.add("C02/start-blocked", "%d of %d StartAll/StartWith call(s) had not returned at quiescence", startCalls-startRets, startCalls)
		}
		done := tg.M.Live() == 0 && tg.AllFired
		for i, w := range ws {
			if done {
				if w.rets < w.calls {
					vl.add("C02/waiter-hangs", "instance complete (all start events fired, no token left) but waiter %d's call #%d has not returned at quiescence", i, w.calls)
				} else if !w.lastOK && !w.lastExpired {
					vl.add("C02/waiter-false", "instance complete but waiter %d's last call returned false", i)
				}
			} else if w.trues > 0 {
				vl.add("C02/complete-early", "waiter %d got true although the instance is not complete", i)
			}
		}
	}
	o.Viol = vl.v
	o.Tags = c.Prog.Tags
	o.Nontrivial = r.Switches > 0 && (c.Meta["k"] > 1 || len(c.Waiters) > 1)
	probe(o, "multi-start", c.Meta["k"] > 1)
	probe(o, "token-born-at-a-boundary-event", c.Meta["boundary"] == 1)
	probe(o, "fork-without-join", strings.Contains(strings.Join(c.Prog.Tags, ","), "fork-no-join"))
	probe(o, "subset-started", len(c.StartOnly) > 0)
	probe(o, "waiter-expired", c.env.FaultCounts()["waiter-expired-then-waits-again"] > 0)
	probe(o, "concurrent-startwith", c.StartMode == 2 && c.Meta["k"] > 1)
	o.Sample = map[string]any{"program": c.Prog.Desc, "waiters": c.Waiters, "ansDelayMs": c.AnsDelayMs, "buf": c.Buf, "hold": c.Hold, "tags": strings.Join(c.Prog.Tags, ",")}
	return o
}

func init() {
	Props["C02"] = &Scenario{Gen: genC02, Check: checkC02}
}
