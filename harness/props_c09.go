package zzverif

import (
	"context"
	"fmt"
	"strings"
	"time"

	"github.com/olive-io/bpmn/v2/pkg/tracing"

	"verif/sim/simlog"
	"verif/sim/simrt"
)

// ---------- C09: trace stream is one causally consistent total order, same for all subscribers ----------

type stamp struct {
	S int // sender
	N int // sequence number of that sender
}

func (s stamp) Unpack() any { return s }

type subPlan struct {
	Buf        int  `json:"buf"`
	StartAfter int  `json:"startAfter"` // subscribe once this many sends have been invoked
	Take       int  `json:"take"`       // unsubscribe after receiving this many traces (0 = stay until the end)
	Lazy       int  `json:"lazy"`       // yields between two receives
	Rejoin     bool `json:"rejoin,omitempty"` // after leaving, subscribe again with the same channel and stay until the end
}

// TracerCase exercises pkg/tracing alone.
type TracerCase struct {
	Senders int       `json:"senders"`
	PerSend int       `json:"perSender"`
	Subs    []subPlan `json:"subs"`
	Relay   bool      `json:"relay"`
	// the tracer's context is cancelled once this many sends were invoked, while the senders are still at work
	// (0: after the last sender is done and everything has settled); the senders go on and release their handles
	CancelAfter int `json:"cancelAfter,omitempty"`
	env     *Env
}

func (t *TracerCase) Prepare() error { t.env = &Env{}; return nil }
func (t *TracerCase) Env() *Env      { return t.env }

func (t *TracerCase) Main() {
	L := &t.env.L
	ctx, cancel := context.WithCancel(context.Background())
	defer cancel()
	tr := tracing.NewTracer(ctx)
	in := tr
	if t.Relay {
		// senders feed an inner tracer that is relayed into the observed one
		in = tracing.NewTracer(ctx)
		tracing.NewRelay(ctx, in, tr, func(x tracing.ITrace) []tracing.ITrace { return []tracing.ITrace{x} })
	}
	var sent simlog.Cell
	done := make(chan struct{}, 64)
	for i := 0; i < len(t.Subs); i++ {
		i := i
		sp := t.Subs[i]
		go func() {
			defer func() { done <- struct{}{} }()
			for int(sent.Get()) < sp.StartAfter {
				select {
				case <-time.After(time.Microsecond):
				case <-ctx.Done():
					return
				}
			}
			ch := make(chan tracing.ITrace, sp.Buf)
			id := i // the log identity of this subscription (a second session of the same channel gets its own)
			take := sp.Take
			L.AddG(id, "sub-call", "", "", 0)
			tr.SubscribeChannel(ch)
			L.AddG(id, "sub-ret", "", "", 0)
			got := 0
			trDone := tr.Done()
			for {
				var x tracing.ITrace
				var ok bool
				select {
				case x, ok = <-ch:
				case <-trDone:
					// the tracer has terminated: whatever it handed out is in the channel, and a channel it knew is closed
					trDone = nil
					select {
					case x, ok = <-ch:
					default:
						L.AddG(id, "open-after-done", "", "", 0)
						return
					}
				}
				if !ok {
					L.AddG(id, "closed", "", "", 0)
					return
				}
				st, _ := tracing.Unwrap(x).(stamp)
				L.AddG(id, "recv", fmt.Sprint(st.S), "", st.N)
				got++
				for k := 0; k < sp.Lazy; k++ {
					simrt.Yield("lazy-subscriber")
				}
				if take > 0 && got >= take {
					L.AddG(id, "unsub-call", "", "", 0)
					tr.Unsubscribe(ch)
					L.AddG(id, "unsub-ret", "", "", 0)
					if !sp.Rejoin || id != i {
						return
					}
					// what the tracer had put into the channel before the subscription ended belongs to the first
					// session: take it out, then join again with the very same channel and stay
					for more := true; more; {
						select {
						case _, open := <-ch:
							if !open {
								// the tracer terminated while the subscription was being ended and closed the channel
								L.AddG(id, "closed", "", "", 0)
								return
							}
						default:
							more = false
						}
					}
					id, take, got = i+50, 0, 0
					t.env.fault("rejoin-with-same-channel")
					L.AddG(id, "sub-call", "", "", 0)
					tr.SubscribeChannel(ch)
					L.AddG(id, "sub-ret", "", "", 0)
				}
			}
		}()
	}
	sdone := make(chan struct{}, 64)
	for s := 0; s < t.Senders; s++ {
		s := s
		h := in.RegisterSender()
		go func() {
			defer func() { sdone <- struct{}{} }()
			defer h.Done()
			for n := 1; n <= t.PerSend; n++ {
				sent.Add(1)
				L.AddG(100+s, "send-call", fmt.Sprint(s), "", n)
				in.Send(stamp{S: s, N: n})
				L.AddG(100+s, "send-ret", fmt.Sprint(s), "", n)
			}
		}()
	}
	// wait for the senders, bounded by quiescence
	waitAll := func(ch chan struct{}, n int, what string) {
		for k := 0; k < n; k++ {
			select {
			case <-ch:
			case <-time.After(watchdog):
				L.Add("stuck", what, "", n-k)
				return
			}
		}
	}
	early := make(chan struct{})
	if t.CancelAfter > 0 {
		go func() {
			defer close(early)
			for int(sent.Get()) < t.CancelAfter {
				select {
				case <-time.After(time.Microsecond):
				case <-ctx.Done():
					return
				}
			}
			t.env.fault("cancel-while-senders-at-work")
			L.Add("cancel", "", "", 0)
			cancel()
		}()
	} else {
		close(early)
	}
	waitAll(sdone, t.Senders, "senders")
	L.Add("senders-done", "", "", 0)
	<-early
	if t.CancelAfter == 0 {
		// let deliveries settle, then terminate the tracer: subscribers that stayed must see their channel closed
		<-time.After(time.Second)
		L.Add("cancel", "", "", 0)
		cancel()
	}
	waitAll(done, len(t.Subs), "subscribers")
	select {
	case <-tr.Done():
		L.Add("tracer-done", "", "", 0)
	case <-time.After(watchdog):
		L.Add("tracer-not-done", "", "", 0)
	}
	L.Add("end", "", "", 0)
}

func genC09Tracer(d *Draw) Case {
	t := &TracerCase{Senders: 1 + d.N(8), PerSend: 1 + d.N(6), Relay: d.N(4) == 3}
	total := t.Senders * t.PerSend
	ns := 1 + d.N(4)
	for i := 0; i < ns; i++ {
		sp := subPlan{Buf: d.N(5), Lazy: d.N(4)}
		if d.N(2) == 1 {
			sp.StartAfter = d.N(total + 1)
		}
		if d.N(2) == 1 {
			sp.Take = 1 + d.N(total)
			sp.Rejoin = d.N(3) == 2
		}
		t.Subs = append(t.Subs, sp)
	}
	if !t.Relay && d.N(3) == 2 {
		// (not through a relay: the relay is a client of both tracers that stops forwarding when the context is done)
		t.CancelAfter = 1 + d.N(total)
	}
	return t
}

func checkC09Tracer(t *TracerCase, r *simrt.Result) *Outcome {
	o := &Outcome{}
	var vl vlist
	genericRunViolations("C09", r, &vl)
	for _, p := range r.Panics {
		vl.add("C09/panic", "%s", p)
	}
	type subst struct {
		recv            []stamp
		subRet, unsubAt int64
		calls, rets     int
		closed, left    bool
	}
	subs := map[int]*subst{}
	get := func(i int) *subst {
		if subs[i] == nil {
			subs[i] = &subst{subRet: -1, unsubAt: -1}
		}
		return subs[i]
	}
	sendCall := map[stamp]int64{}
	sendCalls, sendRets := 0, 0
	ended := false
	cancelStep := int64(-1)
	for _, ev := range t.env.L.E {
		switch ev.Kind {
		case "sub-call", "unsub-call":
			s := get(ev.G)
			s.calls++
			if ev.Kind == "unsub-call" {
				s.unsubAt = ev.Step
				s.left = true
			}
		case "sub-ret", "unsub-ret":
			s := get(ev.G)
			s.rets++
			if ev.Kind == "sub-ret" {
				s.subRet = ev.Step
			}
		case "recv":
			var sn int
			fmt.Sscan(ev.A, &sn)
			get(ev.G).recv = append(get(ev.G).recv, stamp{S: sn, N: ev.N})
		case "closed":
			get(ev.G).closed = true
		case "cancel":
			cancelStep = ev.Step
		case "send-call":
			var sn int
			fmt.Sscan(ev.A, &sn)
			sendCall[stamp{S: sn, N: ev.N}] = ev.Step
			sendCalls++
		case "send-ret":
			sendRets++
		case "stuck":
			vl.add("C09/deadlock", "%d %s had not finished when the system was quiescent (a Send, Subscribe or Unsubscribe call never returned)", ev.N, ev.A)
		case "tracer-not-done":
			vl.add("C09/tracer-not-done", "tracer did not terminate after cancel although all senders were done")
		case "end":
			ended = true
		}
	}
	if !ended && !r.StepCap {
		vl.add("C09/deadlock", "driver did not reach its end")
	}
	if sendRets != sendCalls {
		vl.add("C09/deadlock", "%d Send call(s) never returned", sendCalls-sendRets)
	}
	for i, s := range subs {
		if s.rets != s.calls {
			vl.add("C09/deadlock", "subscriber %d: %d Subscribe/Unsubscribe call(s) never returned", i, s.calls-s.rets)
		}
		// per sender: consecutive, no duplicates
		last := map[int]int{}
		first := map[int]int{}
		for _, st := range s.recv {
			if l, ok := last[st.S]; ok {
				if st.N == l {
					vl.add("C09/duplicate", "subscriber %d received (%d,%d) twice", i, st.S, st.N)
				} else if st.N != l+1 {
					vl.add("C09/dropped-or-reordered", "subscriber %d received (%d,%d) right after (%d,%d) of the same sender", i, st.S, st.N, st.S, l)
				}
			} else {
				first[st.S] = st.N
			}
			last[st.S] = st.N
		}
		// window start: a send invoked after Subscribe returned cannot be skipped if later ones of the sender arrive
		if s.subRet >= 0 {
			for snd, f := range first {
				for n := 1; n < f; n++ {
					if c, ok := sendCall[stamp{S: snd, N: n}]; ok && c > s.subRet {
						vl.add("C09/dropped-in-window", "subscriber %d: Send(%d,%d) was invoked at step %d after Subscribe had returned (step %d), later traces of that sender were received, this one was not", i, snd, n, c, s.subRet)
					}
				}
			}
		}
		// a subscriber that stayed sees every trace sent after it subscribed, and its channel is closed at the end
		if ended && s.subRet >= 0 && !s.left {
			if !s.closed && !(cancelStep >= 0 && s.subRet > cancelStep) {
				// (a subscription made after the cancellation may find the tracer terminated already)
				vl.add("C09/not-closed", "subscriber %d stayed subscribed but its channel was not closed when the tracer terminated", i)
			}
			have := map[stamp]bool{}
			for _, st := range s.recv {
				have[st] = true
			}
			for st, c := range sendCall {
				if c > s.subRet && !have[st] {
					vl.add("C09/dropped-in-window", "subscriber %d stayed until the end but never received (%d,%d), whose Send was invoked at step %d after Subscribe returned (step %d)", i, st.S, st.N, c, s.subRet)
				}
			}
		}
	}
	// any two subscribers: common elements contiguous in both and in the same order
	ids := make([]int, 0, len(subs))
	for i := range subs {
		ids = append(ids, i)
	}
	for _, a := range ids {
		for _, b := range ids {
			if a >= b {
				continue
			}
			ra, rb := subs[a].recv, subs[b].recv
			inB := map[stamp]int{}
			for k, st := range rb {
				inB[st] = k
			}
			prevA, prevB := -1, -1
			for k, st := range ra {
				kb, ok := inB[st]
				if !ok {
					continue
				}
				if prevA >= 0 {
					if k != prevA+1 || kb != prevB+1 {
						vl.add("C09/subscribers-disagree", "subscribers %d and %d: their common traces are not one contiguous identically ordered segment (around (%d,%d): positions %d/%d after %d/%d); A=%v B=%v", a, b, st.S, st.N, k, kb, prevA, prevB, ra, rb)
					}
				}
				prevA, prevB = k, kb
			}
		}
	}
	o.Viol = vl.v
	left := 0
	for _, s := range subs {
		if s.left {
			left++
		}
	}
	o.Nontrivial = r.Switches > 0 && len(t.Subs) > 1
	probe(o, "subscriber-left-mid-stream", left > 0)
	probe(o, "late-subscriber", func() bool {
		for _, s := range t.Subs {
			if s.StartAfter > 0 {
				return true
			}
		}
		return false
	}())
	probe(o, "relay", t.Relay)
	probe(o, "cancelled-while-senders-at-work", t.CancelAfter > 0)
	if left > 0 {
		t.env.fault("unsubscribe-while-sending")
	}
	o.Sample = map[string]any{"senders": t.Senders, "perSender": t.PerSend, "subscribers": t.Subs, "relay": t.Relay}
	return o
}

// ---- (b) causality grammar on engine runs ----

func checkCausality(pfx string, prog *Program, hist []simlog.Ev, vl *vlist) (forks int) {
	announced := map[string]bool{}
	terminated := map[string]bool{}
	visits := map[string]int{}
	leaves := map[string]int{}
	unannounced := 0
	startVisits := 0
	isStart := func(id string) bool {
		for _, p := range prog.Defs.Procs {
			if n, _ := p.FindNode(id); n != nil {
				return n.Kind == "start"
			}
		}
		return false
	}
	flowIDs := func(b string) []string {
		var out []string
		for _, x := range strings.Split(b, ",") {
			if i := strings.Index(x, "@"); i >= 0 {
				x = x[:i]
			}
			if x != "" {
				out = append(out, x)
			}
		}
		return out
	}
	mention := func(step int64, kind, id string) {
		if terminated[id] {
			vl.add(pfx+"/trace-after-termination", "step %d: %s mentions flow %s after its TerminationTrace", step, kind, id)
		}
	}
	for _, ev := range hist {
		switch ev.Kind {
		case "t:flow":
			ids := flowIDs(ev.B)
			if len(ids) > 1 {
				forks++
			}
			for _, id := range ids {
				mention(ev.Step, "FlowTrace", id)
				announced[id] = true
			}
		case "t:newflow":
			mention(ev.Step, "NewFlowTrace", ev.A)
			if !announced[ev.A] {
				unannounced++
			}
		case "t:term":
			mention(ev.Step, "TerminationTrace", ev.B)
			terminated[ev.B] = true
		case "t:cancelflow":
			mention(ev.Step, "CancellationFlowTrace", ev.B)
		case "t:visit":
			visits[ev.A]++
			if isStart(ev.A) {
				startVisits++
			}
		case "t:leave":
			leaves[ev.A]++
			if leaves[ev.A] > visits[ev.A] {
				vl.add(pfx+"/leave-before-visit", "step %d: node %s left %d time(s) but visited only %d time(s) so far", ev.Step, ev.A, leaves[ev.A], visits[ev.A])
			}
		case "quiescent", "cancel":
			// only the undisturbed part of the run is checked
			goto done
		}
	}
done:
	if unannounced > startVisits {
		vl.add(pfx+"/flow-not-announced", "%d new flows appeared whose id no earlier FlowTrace had announced, but only %d flows were started by start events", unannounced, startVisits)
	}
	return forks
}

func genC09(d *Draw) Case {
	if d.N(2) == 0 {
		return genC09Tracer(d)
	}
	opts := ProgOpts{Kinds: []string{"seq", "xor", "and", "or", "loop", "sub"}, MaxDepth: 1 + d.N(2), MaxTasks: 3 + d.N(5), OrEarlyEnd: true, StartFork: true, EmptyBranches: true, Fuse: true, Throws: true}
	var kinds []string
	for _, k := range opts.Kinds {
		if d.N(3) != 0 {
			kinds = append(kinds, k)
		}
	}
	opts.Kinds = kinds
	prog := GenProgram(d, opts)
	c := &ProcCase{Prog: prog, Buf: d.N(17), Hold: d.N(3), ExtraObs: 1 + d.N(2)}
	c.Picks = drawPicks(d, 48)
	return c
}

func checkC09(cc Case, r *simrt.Result) *Outcome {
	if t, ok := cc.(*TracerCase); ok {
		return checkC09Tracer(t, r)
	}
	c := cc.(*ProcCase)
	o := &Outcome{}
	var vl vlist
	genericRunViolations("C09", r, &vl)
	for _, p := range r.Panics {
		vl.add("C09/panic", "%s", p)
	}
	forks := checkCausality("C09", c.Prog, c.env.L.E, &vl)
	// all subscribers of the process tracer see the same sequence (one may lag behind at the end)
	seqs := map[int][]string{}
	for _, ev := range c.env.L.E {
		if strings.HasPrefix(ev.Kind, "t:") {
			seqs[0] = append(seqs[0], ev.Kind[2:]+" "+ev.A+" "+ev.B)
		} else if strings.HasPrefix(ev.Kind, "o:") {
			seqs[ev.G] = append(seqs[ev.G], ev.Kind[2:]+" "+ev.A+" "+ev.B)
		}
	}
	for g, s := range seqs {
		if g == 0 {
			continue
		}
		m := seqs[0]
		n := len(s)
		if len(m) < n {
			n = len(m)
		}
		for k := 0; k < n; k++ {
			if s[k] != m[k] {
				vl.add("C09/subscribers-disagree", "subscriber %d and subscriber 0 of the process tracer differ at position %d: %q vs %q", g, k, s[k], m[k])
				break
			}
		}
	}
	o.Viol = vl.v
	o.Nontrivial = r.Switches > 0 && forks > 0
	probe(o, "engine-run-with-forks", forks > 0)
	o.Sample = map[string]any{"program": c.Prog.Desc, "observers": 1 + c.ExtraObs, "buf": c.Buf, "traces": len(seqs[0])}
	return o
}

func init() {
	Props["C09"] = &Scenario{Gen: genC09, Check: checkC09}
}
