package zzverif

import (
	"time"
	"fmt"
	"sort"
	"strings"

	"verif/sim/simlog"
)

// Violation is one failed oracle clause.
type Violation struct {
	Clause string `json:"clause"`
	Detail string `json:"detail"`
}

type vlist struct{ v []Violation }

func (l *vlist) add(clause, f string, a ...any) {
	for _, x := range l.v {
		if x.Clause == clause {
			return // one report per clause per run
		}
	}
	l.v = append(l.v, Violation{Clause: clause, Detail: fmt.Sprintf(f, a...)})
}

// TokenGameResult is what replaying a history through the reference model yields.
type TokenGameResult struct {
	M          *Model
	Viol       []Violation
	Complete   bool // WaitUntilComplete returned true before quiescence
	Cease      int
	Requests   map[string]int
	Quiesced   bool
	AllFired   bool
	Timeouts   int
}

func findNodeIn(d *Definitions, id string) *Node {
	for _, p := range d.Procs {
		if n, _ := p.FindNode(id); n != nil {
			return n
		}
	}
	return nil
}

// CheckTokenGame replays the observed history of a single-process run through the model.
// pfx is the property id used in clause names.
func CheckTokenGame(pfx string, prog *Program, hist []simlog.Ev) *TokenGameResult {
	var vl vlist
	g := prog.Defs.Procs[0]
	m := NewModel(g, prog.Vars)
	for k, v := range prog.Objs {
		m.objs[k] = v
	}
	res := &TokenGameResult{M: m, Requests: map[string]int{}}
	started := false
	nStarts := 0
	for _, n := range g.Nodes {
		if n.Kind == "start" && len(n.Events) == 0 {
			nStarts++
		}
	}
	fired := map[string]bool{}
	allFired := func() bool { return len(fired) >= nStarts }
	visitsEnd := map[string]int{}
	landmarks := map[string]int{}
	var errs []string
	var finalVars map[string]any
	cancelled := false
	var mockNow time.Duration
	taskErrWant := map[string]int{}
	taskErrGot := map[string]int{}
	retried := map[string]int{}
	for hi, ev := range hist {
		if len(vl.v) > 0 {
			// the model has lost track: everything after the first unexplained observation is a cascade
			res.Viol = vl.v
			return res
		}
		switch ev.Kind {
		case "startall":
			m.StartAll()
			started = true
			for _, n := range g.Nodes {
				if n.Kind == "start" && len(n.Events) == 0 {
					fired[n.ID] = true
				}
			}
		case "startwith":
			m.StartAt(ev.A)
			fired[ev.A] = true
			started = true
		case "t:task":
			if cancelled {
				continue
			}
			res.Requests[ev.A]++
			if e := m.Request(ev.A); e != "" {
				vl.add(pfx+"/request-not-enabled", "step %d: %s; model pending=%v waiting=%v", ev.Step, e, m.Pending(), m.Waiting())
			}
		case "ans":
			r, _ := ev.V.(map[string]any)
			objs, _ := r["__objects"].(map[string]any)
			if e := m.Answer(ev.A, r, objs); e != "" {
				vl.add(pfx+"/harness", "step %d: %s", ev.Step, e)
			}
		case "ans-mix":
			// several Do calls of different kinds (results / error without handler) answer one request: exactly one
			// of them takes effect. An ErrorTrace naming the activity tells that it was an error call; then
			// nothing may be stored. Otherwise the results of one success call are stored and no error appears.
			isErr := false
			for _, later := range hist[hi+1:] {
				if later.Kind == "quiescent" || later.Kind == "cancel" {
					break
				}
				if later.Kind == "t:error" && strings.Contains(later.A, "TaskExecError") && strings.Contains(later.B, "'"+ev.A+"'") {
					isErr = true
					break
				}
			}
			if isErr {
				taskErrWant[ev.A]++
				if e := m.Answer(ev.A, nil, nil); e != "" {
					vl.add(pfx+"/harness", "step %d: %s", ev.Step, e)
				}
			} else {
				r, _ := ev.V.(map[string]any)
				objs, _ := r["__objects"].(map[string]any)
				if e := m.Answer(ev.A, r, objs); e != "" {
					vl.add(pfx+"/harness", "step %d: %s", ev.Step, e)
				}
			}
		case "t:leave":
			if n := findNodeIn(prog.Defs, ev.A); n != nil && n.Kind == "catch" && n.Relaxed {
				if !m.ReleaseCatch(ev.A) {
					vl.add(pfx+"/catch-left-without-token", "step %d: catch event %s continued although the token game has no token waiting there", ev.Step, ev.A)
				}
			}
		case "ev", "ev!":
			// an event handed to the instance at a moment when the engine was quiescent (or whose effect
			// does not depend on the order among the events delivered with it)
			m.Deliver(ev.A, ev.B)
		case "clock-advance":
			// the mock clock of the instance's timers moves on (at a quiescent moment): every duration timer of a
			// catch event that is marked exact (Ref set) and becomes due fires once, as an event of its own
			if dur, err := time.ParseDuration(ev.A); err == nil {
				before := mockNow
				mockNow += dur
				for _, n := range g.allNodes() {
					for _, dd := range n.Events {
						if dd.Kind != "timer" || dd.Ref == "" || !strings.HasPrefix(dd.Timer, "D:PT") {
							continue
						}
						due, err := time.ParseDuration(strings.ToLower(strings.TrimPrefix(dd.Timer, "D:PT")))
						if err == nil && before < due && mockNow >= due {
							m.Deliver("timer", dd.Ref)
						}
					}
				}
			}
		case "ans-err", "ans-skip":
			taskErrWant[ev.A]++
			if e := m.Answer(ev.A, nil, nil); e != "" {
				vl.add(pfx+"/harness", "step %d: %s", ev.Step, e)
			}
		case "ans-exit":
			taskErrWant[ev.A]++
			if e := m.Drop(ev.A); e != "" {
				vl.add(pfx+"/harness", "step %d: %s", ev.Step, e)
			}
		case "ans-retry":
			taskErrWant[ev.A]++
			// the token is re-requested at most ev.N additional times, otherwise consumed: look ahead
			more := 0
			for _, later := range hist[hi+1:] {
				if later.Kind == "t:task" && later.A == ev.A {
					more++
				}
				if later.Kind == "quiescent" || later.Kind == "cancel" {
					break
				}
			}
			retried[ev.A]++
			if more > 0 {
				if retried[ev.A] > ev.N {
					vl.add(pfx+"/retried-too-often", "step %d: activity %s is requested again after %d error answers with retry count %d", ev.Step, ev.A, retried[ev.A], ev.N)
				}
				if e := m.Rerequest(ev.A); e != "" {
					vl.add(pfx+"/harness", "step %d: %s", ev.Step, e)
				}
			} else {
				if e := m.Drop(ev.A); e != "" {
					vl.add(pfx+"/harness", "step %d: %s", ev.Step, e)
				}
			}
		case "t:landmark":
			landmarks[ev.A]++
		case "t:visit":
			if n := g.Node(ev.A); n != nil && n.Kind == "end" {
				visitsEnd[ev.A]++
			}
		case "t:error":
			if strings.Contains(ev.A, "TaskExecError") {
				// "call task '<id>': <reason>"
				id := ""
				if i := strings.Index(ev.B, "'"); i >= 0 {
					if j := strings.Index(ev.B[i+1:], "'"); j >= 0 {
						id = ev.B[i+1 : i+1+j]
					}
				}
				if strings.Contains(ev.B, "timed out") {
					if n := findNodeIn(prog.Defs, id); n != nil && n.Timeout != "" {
						// the task's own time-out answers the request: the token continues without results
						res.Timeouts++
						if e := m.Answer(id, nil, nil); e != "" {
							vl.add(pfx+"/timeout-unexpected", "step %d: time-out error for %s: %s", ev.Step, id, e)
						}
						continue
					}
				}
				taskErrGot[id]++
				continue
			}
			errs = append(errs, ev.A+": "+ev.B)
		case "t:cease":
			if ev.A != g.ID {
				continue // a sub-process' own cease-flow trace
			}
			res.Cease++
			if !res.Quiesced && (m.Live() > 0 || !allFired()) {
				vl.add(pfx+"/cease-early", "step %d: CeaseFlowTrace while the token game still holds %d token(s) (start events fired: %d of %d): pending=%v waiting=%v", ev.Step, m.Live(), len(fired), nStarts, m.Pending(), m.Waiting())
			}
		case "complete":
			if ev.A == "true" && !res.Quiesced {
				res.Complete = true
				if m.Live() > 0 || !allFired() {
					vl.add(pfx+"/complete-early", "step %d: WaitUntilComplete returned true while the token game still holds %d token(s) (start events fired: %d of %d): pending=%v waiting=%v", ev.Step, m.Live(), len(fired), nStarts, m.Pending(), m.Waiting())
				}
			}
		case "cancel":
			cancelled = true
		case "quiescent":
			res.Quiesced = true
		case "vars":
			finalVars, _ = ev.V.(map[string]any)
		case "fatal":
			vl.add(pfx+"/harness", "fatal: %s", ev.A)
		}
	}
	_ = started
	if !res.Quiesced {
		vl.add(pfx+"/no-quiescence", "the run did not reach terminal quiescence within its bounds")
		res.Viol = vl.v
		return res
	}
	if p := m.Pending(); len(p) > 0 {
		vl.add(pfx+"/skipped", "at quiescence the token game has enabled activities that were never requested: %v (requests seen: %v)", p, res.Requests)
	}
	// end events
	keys := map[string]bool{}
	for k := range visitsEnd {
		keys[k] = true
	}
	for k := range m.Ends {
		if g.Node(k) != nil {
			keys[k] = true
		}
	}
	var ks []string
	for k := range keys {
		ks = append(ks, k)
	}
	sort.Strings(ks)
	for _, k := range ks {
		if visitsEnd[k] != m.Ends[k] {
			vl.add(pfx+"/end-events", "end event %s reached %d time(s), token game says %d (all: engine=%v model=%v)", k, visitsEnd[k], m.Ends[k], visitsEnd, m.Ends)
		}
	}
	// one landmark trace per completed sub-process activation, at every nesting depth
	if len(vl.v) == 0 && !hasOpenSubFinding(prog) {
		var subs []string
		for k := range m.SubDone {
			subs = append(subs, k)
		}
		for k := range landmarks {
			if _, ok := m.SubDone[k]; !ok {
				subs = append(subs, k)
			}
		}
		sort.Strings(subs)
		for _, k := range subs {
			if landmarks[k] != m.SubDone[k] {
				vl.add(pfx+"/landmark-count", "sub-process %s: ProcessLandMarkTrace seen %d time(s), in the token game the parent's token left it %d time(s)", k, landmarks[k], m.SubDone[k])
			}
		}
	}
	// completion
	res.AllFired = allFired()
	if m.Live() == 0 && allFired() {
		if !res.Complete {
			vl.add(pfx+"/not-complete", "token game has no token left but WaitUntilComplete did not return true before quiescence")
		}
		if res.Cease != 1 {
			vl.add(pfx+"/cease-count", "token game has no token left; CeaseFlowTrace seen %d time(s), want 1", res.Cease)
		}
	} else if len(m.Waiting()) == 0 && len(m.Pending()) == 0 {
		// tokens parked at joins / stuck gateways: the instance must not report completion (checked above)
	}
	// error traces of error answers: one per error answer
	for id, n := range taskErrWant {
		if taskErrGot[id] != n {
			vl.add(pfx+"/error-trace-count", "activity %s was answered with an error %d time(s), ErrorTrace naming it seen %d time(s)", id, n, taskErrGot[id])
		}
	}
	for id, n := range taskErrGot {
		if taskErrWant[id] == 0 {
			vl.add(pfx+"/unexpected-error-trace", "ErrorTrace for task %s (%d) although no error answer was given", id, n)
		}
	}
	// error traces
	wantErr := map[string]int{}
	for _, id := range m.Errors {
		wantErr[id]++
	}
	gotErr := map[string]int{}
	for _, e := range errs {
		matched := false
		for id := range wantErr {
			if strings.Contains(e, "NoEffectiveSequenceFlows") && strings.Contains(e, "`"+id+"`") {
				gotErr[id]++
				matched = true
			}
		}
		if !matched {
			vl.add(pfx+"/unexpected-error-trace", "ErrorTrace not explained by the token game: %s", e)
		}
	}
	for id, n := range wantErr {
		if gotErr[id] != n {
			vl.add(pfx+"/missing-error-trace", "gateway %s has no effective flow %d time(s) in the token game, ErrorTrace naming it seen %d time(s)", id, n, gotErr[id])
		}
	}
	// variables
	if finalVars != nil {
		mv := m.Vars()
		all := map[string]bool{}
		for k := range mv {
			all[k] = true
		}
		for k := range finalVars {
			all[k] = true
		}
		var names []string
		for k := range all {
			names = append(names, k)
		}
		sort.Strings(names)
		for _, k := range names {
			a, aok := finalVars[k]
			b, bok := mv[k]
			if aok && bok && strings.HasPrefix(k, "r_") && res.Requests[k[2:]] > 1 {
				// several tokens passed this activity, possibly concurrently: the engine may apply their
				// answers in either order, so only the activity part of the value is compared
				sa, sb := fmt.Sprint(a), fmt.Sprint(b)
				if i := strings.Index(sa, "#"); i >= 0 {
					sa = sa[:i]
				}
				if i := strings.Index(sb, "#"); i >= 0 {
					sb = sb[:i]
				}
				a, b = sa, sb
			}
			if sa, ok := a.(string); ok && strings.HasPrefix(k, "r_") {
				if i := strings.LastIndex(sa, "."); i > 0 && strings.Contains(sa, "#") {
					a = sa[:i] // which of several Do calls took effect is checked by the C08 oracle
				}
			}
			if aok != bok || canon(a) != canon(b) {
				vl.add(pfx+"/variables", "variable %s: engine has %v (present=%v), token game has %v (present=%v)", k, a, aok, b, bok)
			}
		}
	}
	res.Viol = vl.v
	return res
}

// hasOpenSubFinding: programs in which a sub-process is interrupted by a boundary event run into open known
// findings; their landmark counts are not compared.
func hasOpenSubFinding(prog *Program) bool {
	for _, g := range prog.Defs.Procs {
		for _, n := range g.Nodes {
			if n.Kind == "boundary" {
				return true
			}
		}
	}
	return false
}
