package zzverif

import (
	"context"
	"fmt"

	"github.com/olive-io/bpmn/v2/pkg/data"
	"github.com/olive-io/bpmn/v2/pkg/expression"
	"github.com/olive-io/bpmn/v2/pkg/expression/expr"

	"verif/sim/simlog"
	"verif/sim/simrt"
)

// A recording expression language, registered through the repository's public RegisterEngine seam.
// It delegates to the real expr engine and logs which simulated goroutine (= which token) evaluated
// which condition to what. The C04 per-token-data stratum uses it as ground truth for "the current
// variable values" each token saw.

const spyLang = "https://verif.invalid/expr-spy"

var spyLog *simlog.Log // set by the running case (one run at a time per process)

type spyEngine struct{ inner *expr.Expr }

type spyCompiled struct {
	src   string
	inner expression.ICompiledExpression
}

func (e *spyEngine) SetItemAwareLocator(name string, l data.IItemAwareLocator) {
	e.inner.SetItemAwareLocator(name, l)
}

func (e *spyEngine) CompileExpression(source string) (expression.ICompiledExpression, error) {
	c, err := e.inner.CompileExpression(source)
	if err != nil {
		return nil, err
	}
	return &spyCompiled{src: source, inner: c}, nil
}

func (e *spyEngine) EvaluateExpression(c expression.ICompiledExpression, d interface{}) (expression.IResult, error) {
	sc := c.(*spyCompiled)
	r, err := e.inner.EvaluateExpression(sc.inner, d)
	if spyLog != nil {
		spyLog.AddG(simrt.CurG(), "eval", sc.src, fmt.Sprint(r), 0)
	}
	return r, err
}

func init() {
	expression.RegisterEngine(spyLang, func(ctx context.Context) expression.IEngine {
		return &spyEngine{inner: expr.New(ctx)}
	})
}
