package zzverif

import (
	"fmt"
	"sort"
	"strings"
)

// Graph is the explicit process graph every scenario is built from. It is emitted as BPMN 2.0 XML
// (the path every user takes into the engine) and interpreted, independently, by the reference
// token game in model.go.

type Cond struct {
	Var  string `json:"var,omitempty"`  // boolean variable
	Want bool   `json:"want,omitempty"` // condition is Var == Want
	Lt   int    `json:"lt,omitempty"`   // if LtVar != "": condition is LtVar < Lt
	LtVar string `json:"ltvar,omitempty"`
	Ge   bool   `json:"ge,omitempty"` // with LtVar: the condition is LtVar >= Lt instead
	Const *bool `json:"const,omitempty"` // constant condition
	Lang string `json:"lang,omitempty"` // "" = expr, "xpath"
	Obj  string `json:"obj,omitempty"`  // boolean data object (expr: getDataObject)
	Raw  string `json:"raw,omitempty"`  // literal expression text (XML-escaped); the model cannot evaluate it
	Informal bool `json:"informal,omitempty"` // written without xsi:type: an informal expression, which the engine cannot execute and takes as true
}

type Flow struct {
	ID   string `json:"id"`
	From string `json:"from"`
	To   string `json:"to"`
	Cond *Cond  `json:"cond,omitempty"`
}

type EventDef struct {
	Kind string `json:"kind"` // signal, message, timer
	Ref  string `json:"ref"`
	Timer string `json:"timer,omitempty"` // ISO8601 for timer: "D:PT5S" duration, "C:R3/PT1S" cycle, "T:<date>"
}

type Node struct {
	ID       string   `json:"id"`
	Kind     string   `json:"kind"` // start end task xor and or sub catch throw evgw boundary
	TaskKind string   `json:"taskKind,omitempty"`
	In       []string `json:"in,omitempty"`
	Out      []string `json:"out,omitempty"`
	Default  string   `json:"default,omitempty"`
	Results  []string `json:"results,omitempty"`  // declared result fields
	DataOut  []string `json:"dataOut,omitempty"`  // declared data outputs
	Props    []string `json:"props,omitempty"`    // olive properties (name = variable name)
	Timeout  string   `json:"timeout,omitempty"`
	Retries  int      `json:"retries,omitempty"`
	Sub      *Graph   `json:"sub,omitempty"`
	Events   []EventDef `json:"events,omitempty"`
	// (start events) event definitions that only the document carries: the start event is triggered explicitly
	// all the same, so the reference model treats it as a plain start event
	StartDefs []EventDef `json:"startDefs,omitempty"`
	Parallel bool     `json:"parallel,omitempty"` // parallelMultiple
	Relaxed  bool     `json:"relaxed,omitempty"`  // the model takes this catch event's firings from the engine's own LeaveTrace (the property only bounds them)
	Attached string   `json:"attached,omitempty"` // boundary: host activity
	Interrupting bool `json:"interrupting,omitempty"`
	Counter  string   `json:"counter,omitempty"` // task writes this loop counter
	Writes   map[string]any `json:"writes,omitempty"` // extra declared results the driver answers with
}

type Graph struct {
	ID    string  `json:"id"`
	Nodes []*Node `json:"nodes"`
	Flows []*Flow `json:"flows"`
	Executable bool `json:"executable"`
	DataObjects []string `json:"dataObjects,omitempty"`
	nodeBy map[string]*Node
	flowBy map[string]*Flow
}

type Definitions struct {
	Procs    []*Graph `json:"procs"`
	Signals  []string `json:"signals,omitempty"`
	Messages []string `json:"messages,omitempty"`
	Escalations []string `json:"escalations,omitempty"`
	Errors   []string `json:"errors,omitempty"`
	MsgFlows [][2]string `json:"msgFlows,omitempty"`
	// header variations (C15): attributes of the definitions element that the rest of the document may rely on
	TypeLang     bool   `json:"typeLang,omitempty"`     // declare typeLanguage explicitly
	Exporter     bool   `json:"exporter,omitempty"`     // exporter / exporterVersion attributes
	DefLang      string `json:"defLang,omitempty"`      // "" = expr, "xpath": the definitions-level expressionLanguage
	ImplicitLang bool   `json:"implicitLang,omitempty"` // conditions in the definitions-level language do not repeat it
	FlowOrder    int    `json:"flowOrder,omitempty"`    // document order of the sequenceFlow elements: 0 as created, 1 reversed, 2 odd positions first (the order a node LISTS its outgoing flows in is what counts, not this one)
	FlowsFirst   bool   `json:"flowsFirst,omitempty"`
	NodesReversed bool  `json:"nodesReversed,omitempty"` // the flow nodes stand in the document in reverse order of creation (nodes register as event consumers in document order)
	ExplicitDefaults bool `json:"explicitDefaults,omitempty"` // optional attributes are spelled out with the value BPMN gives them by default (eventGatewayType="Exclusive", gatewayDirection="Unspecified", isInterrupting="true", startQuantity="1", ...)   // the sequenceFlow elements stand in front of the flow nodes
	Zoo          string `json:"zoo,omitempty"`          // raw XML of a further, non-executable process (and root elements) the engine never runs
	ctr map[string]int
}

// emitImplicitLang is the language conditions may leave out while a document is being written ("" = none)
var emitImplicitLang string

// emitFlowOrder / emitFlowsFirst: document order variations in force while a document is being written
var emitFlowOrder int
var emitFlowsFirst bool
var emitNodesReversed bool
var emitExplicitDefaults bool

// fresh returns a new id with prefix p; every prefix has its own counter, so that adding wrapper
// nodes or flows does not rename the activities.
func (d *Definitions) fresh(p string) string {
	if d.ctr == nil {
		d.ctr = map[string]int{}
	}
	d.ctr[p]++
	return fmt.Sprintf("%s%d", p, d.ctr[p])
}

func (g *Graph) index() {
	g.nodeBy = map[string]*Node{}
	g.flowBy = map[string]*Flow{}
	for _, n := range g.Nodes {
		g.nodeBy[n.ID] = n
		if n.Sub != nil {
			n.Sub.index()
		}
	}
	for _, f := range g.Flows {
		g.flowBy[f.ID] = f
	}
}

func (g *Graph) Node(id string) *Node {
	if g.nodeBy == nil {
		g.index()
	}
	return g.nodeBy[id]
}

func (g *Graph) Flow(id string) *Flow {
	if g.flowBy == nil {
		g.index()
	}
	return g.flowBy[id]
}

func (g *Graph) addNode(n *Node) *Node {
	g.Nodes = append(g.Nodes, n)
	g.nodeBy = nil
	return n
}

// connect adds a sequence flow; outPos < 0 appends to the source's outgoing list, otherwise the flow
// is inserted at that position (the listed order is semantically relevant for exclusive gateways).
func (g *Graph) connect(d *Definitions, from, to string, c *Cond, outPos int) *Flow {
	f := &Flow{ID: d.fresh("F"), From: from, To: to, Cond: c}
	g.Flows = append(g.Flows, f)
	g.flowBy = nil
	src, dst := g.Node(from), g.Node(to)
	if outPos < 0 || outPos >= len(src.Out) {
		src.Out = append(src.Out, f.ID)
	} else {
		src.Out = append(src.Out[:outPos], append([]string{f.ID}, src.Out[outPos:]...)...)
	}
	dst.In = append(dst.In, f.ID)
	return f
}

// AllTasks lists task ids of the graph and its sub-graphs.
func (g *Graph) AllTasks() []string {
	var out []string
	for _, n := range g.Nodes {
		if n.Kind == "task" {
			out = append(out, n.ID)
		}
		if n.Sub != nil {
			out = append(out, n.Sub.AllTasks()...)
		}
	}
	return out
}

// FindNode looks a node up in the graph or its sub-graphs.
func (g *Graph) FindNode(id string) (*Node, *Graph) {
	for _, n := range g.Nodes {
		if n.ID == id {
			return n, g
		}
		if n.Sub != nil {
			if x, gg := n.Sub.FindNode(id); x != nil {
				return x, gg
			}
		}
	}
	return nil, nil
}

// ---------- XML ----------

const exprLang = "https://github.com/expr-lang/expr"
const xpathLang = "http://www.w3.org/1999/XPath"

func condText(c *Cond) (lang string, text string) {
	lang = exprLang
	if c.Lang == "xpath" {
		lang = xpathLang
	}
	if c.Lang == "spy" {
		lang = spyLang
	}
	if c.Raw != "" {
		return lang, c.Raw
	}
	switch {
	case c.Const != nil:
		if lang == xpathLang {
			if *c.Const {
				return lang, "true()"
			}
			return lang, "false()"
		}
		return lang, fmt.Sprintf("%v", *c.Const)
	case c.LtVar != "":
		op := "&lt;"
		if c.Ge {
			op = "&gt;="
		}
		if lang == xpathLang {
			return lang, fmt.Sprintf("//%s %s %d", c.LtVar, op, c.Lt)
		}
		return lang, fmt.Sprintf("%s %s %d", c.LtVar, op, c.Lt)
	case c.Obj != "":
		return exprLang, fmt.Sprintf("getDataObject(&#34;%s&#34;) == %v", c.Obj, c.Want)
	default:
		if lang == xpathLang {
			return lang, fmt.Sprintf("//%s = '%v'", c.Var, c.Want)
		}
		return lang, fmt.Sprintf("%s == %v", c.Var, c.Want)
	}
}

var taskTags = []string{"task", "serviceTask", "scriptTask", "userTask", "manualTask", "callActivity", "businessRuleTask", "sendTask", "receiveTask"}

func (g *Graph) emitBody(b *strings.Builder, ind string) {
	if emitFlowsFirst {
		g.emitFlows(b, ind)
	}
	g.emitNodes(b, ind)
	if !emitFlowsFirst {
		g.emitFlows(b, ind)
	}
}

func (g *Graph) emitNodes(b *strings.Builder, ind string) {
	order := g.Nodes
	if emitNodesReversed {
		order = make([]*Node, 0, len(g.Nodes))
		for i := len(g.Nodes) - 1; i >= 0; i-- {
			order = append(order, g.Nodes[i])
		}
	}
	for _, n := range order {
		tag := ""
		attrs := fmt.Sprintf(` id="%s"`, n.ID)
		switch n.Kind {
		case "start":
			tag = "startEvent"
		case "end":
			tag = "endEvent"
		case "task":
			tag = n.TaskKind
			if tag == "" {
				tag = "task"
			}
		case "xor":
			tag = "exclusiveGateway"
		case "and":
			tag = "parallelGateway"
		case "or":
			tag = "inclusiveGateway"
		case "evgw":
			tag = "eventBasedGateway"
		case "sub":
			tag = "subProcess"
		case "catch":
			tag = "intermediateCatchEvent"
			if n.Parallel {
				attrs += ` parallelMultiple="true"`
			}
		case "throw":
			tag = "intermediateThrowEvent"
		case "boundary":
			tag = "boundaryEvent"
			attrs += fmt.Sprintf(` attachedToRef="%s" cancelActivity="%v"`, n.Attached, n.Interrupting)
		}
		if n.Default != "" {
			attrs += fmt.Sprintf(` default="%s"`, n.Default)
		}
		if emitExplicitDefaults {
			switch n.Kind {
			case "start":
				attrs += ` isInterrupting="true" parallelMultiple="false"`
			case "task":
				attrs += ` isForCompensation="false" startQuantity="1" completionQuantity="1"`
			case "sub":
				attrs += ` isForCompensation="false" startQuantity="1" completionQuantity="1" triggeredByEvent="false"`
			case "xor", "and", "or":
				attrs += ` gatewayDirection="Unspecified"`
			case "evgw":
				attrs += ` gatewayDirection="Unspecified" eventGatewayType="Exclusive" instantiate="false"`
			case "catch":
				if !n.Parallel {
					attrs += ` parallelMultiple="false"`
				}
			}
		}
		fmt.Fprintf(b, "%s<bpmn:%s%s>\n", ind, tag, attrs)
		if n.Kind == "task" && (len(n.Results) > 0 || len(n.DataOut) > 0 || len(n.Props) > 0 || n.Timeout != "" || n.Retries != 0) {
			fmt.Fprintf(b, "%s  <bpmn:extensionElements>\n", ind)
			if n.Timeout != "" || n.Retries != 0 {
				fmt.Fprintf(b, "%s    <olive:taskDefinition type=\"service\"", ind)
				if n.Timeout != "" {
					fmt.Fprintf(b, " timeout=\"%s\"", n.Timeout)
				}
				if n.Retries != 0 {
					fmt.Fprintf(b, " retries=\"%d\"", n.Retries)
				}
				fmt.Fprintf(b, "/>\n")
			}
			if len(n.Props) > 0 {
				fmt.Fprintf(b, "%s    <olive:properties>\n", ind)
				for _, p := range n.Props {
					fmt.Fprintf(b, "%s      <olive:property name=\"%s\" value=\"\" type=\"string\"/>\n", ind, p)
				}
				fmt.Fprintf(b, "%s    </olive:properties>\n", ind)
			}
			if len(n.Results) > 0 {
				fmt.Fprintf(b, "%s    <olive:results>\n", ind)
				for _, r := range n.Results {
					fmt.Fprintf(b, "%s      <olive:field name=\"%s\" type=\"string\"/>\n", ind, r)
				}
				fmt.Fprintf(b, "%s    </olive:results>\n", ind)
			}
			for _, r := range n.DataOut {
				fmt.Fprintf(b, "%s    <olive:dataOutput name=\"%s\" type=\"boolean\"/>\n", ind, r)
			}
			fmt.Fprintf(b, "%s  </bpmn:extensionElements>\n", ind)
		}
		for _, f := range n.In {
			fmt.Fprintf(b, "%s  <bpmn:incoming>%s</bpmn:incoming>\n", ind, f)
		}
		for _, f := range n.Out {
			fmt.Fprintf(b, "%s  <bpmn:outgoing>%s</bpmn:outgoing>\n", ind, f)
		}
		for i, e := range append(append([]EventDef{}, n.Events...), n.StartDefs...) {
			switch e.Kind {
			case "signal":
				fmt.Fprintf(b, "%s  <bpmn:signalEventDefinition id=\"%s_ed%d\" signalRef=\"%s\"/>\n", ind, n.ID, i, e.Ref)
			case "message":
				// a reference "m#op" stands for message m with operation op
				if base, op, ok := strings.Cut(e.Ref, "#"); ok {
					fmt.Fprintf(b, "%s  <bpmn:messageEventDefinition id=\"%s_ed%d\" messageRef=\"%s\"><bpmn:operationRef>%s</bpmn:operationRef></bpmn:messageEventDefinition>\n", ind, n.ID, i, base, op)
				} else {
					fmt.Fprintf(b, "%s  <bpmn:messageEventDefinition id=\"%s_ed%d\" messageRef=\"%s\"/>\n", ind, n.ID, i, e.Ref)
				}
			case "escalation":
				fmt.Fprintf(b, "%s  <bpmn:escalationEventDefinition id=\"%s_ed%d\" escalationRef=\"%s\"/>\n", ind, n.ID, i, e.Ref)
			case "error":
				fmt.Fprintf(b, "%s  <bpmn:errorEventDefinition id=\"%s_ed%d\" errorRef=\"%s\"/>\n", ind, n.ID, i, e.Ref)
			case "timer":
				parts := strings.SplitN(e.Timer, ":", 2)
				el := map[string]string{"D": "timeDuration", "C": "timeCycle", "T": "timeDate"}[parts[0]]
				fmt.Fprintf(b, "%s  <bpmn:timerEventDefinition id=\"%s_ed%d\"><bpmn:%s xsi:type=\"bpmn:tFormalExpression\">%s</bpmn:%s></bpmn:timerEventDefinition>\n", ind, n.ID, i, el, parts[1], el)
			}
		}
		if n.Sub != nil {
			n.Sub.emitBody(b, ind+"  ")
		}
		fmt.Fprintf(b, "%s</bpmn:%s>\n", ind, tag)
	}
	for _, do := range g.DataObjects {
		fmt.Fprintf(b, "%s<bpmn:dataObject id=\"%s\" name=\"%s\"/>\n", ind, do, do)
	}
}

func (g *Graph) emitFlows(b *strings.Builder, ind string) {
	flows := append([]*Flow{}, g.Flows...)
	switch emitFlowOrder {
	case 1:
		for i, j := 0, len(flows)-1; i < j; i, j = i+1, j-1 {
			flows[i], flows[j] = flows[j], flows[i]
		}
	case 2:
		var odd, even []*Flow
		for i, f := range flows {
			if i%2 == 1 {
				odd = append(odd, f)
			} else {
				even = append(even, f)
			}
		}
		flows = append(odd, even...)
	}
	for _, f := range flows {
		if f.Cond == nil {
			fmt.Fprintf(b, "%s<bpmn:sequenceFlow id=\"%s\" sourceRef=\"%s\" targetRef=\"%s\"/>\n", ind, f.ID, f.From, f.To)
		} else {
			lang, text := condText(f.Cond)
			fmt.Fprintf(b, "%s<bpmn:sequenceFlow id=\"%s\" sourceRef=\"%s\" targetRef=\"%s\">\n", ind, f.ID, f.From, f.To)
			if !f.Cond.Informal && emitImplicitLang != "" && lang == emitImplicitLang {
				fmt.Fprintf(b, "%s  <bpmn:conditionExpression xsi:type=\"bpmn:tFormalExpression\">%s</bpmn:conditionExpression>\n", ind, text)
			} else if f.Cond.Informal {
				fmt.Fprintf(b, "%s  <bpmn:conditionExpression>%s</bpmn:conditionExpression>\n", ind, text)
			} else {
				fmt.Fprintf(b, "%s  <bpmn:conditionExpression xsi:type=\"bpmn:tFormalExpression\" language=\"%s\">%s</bpmn:conditionExpression>\n", ind, lang, text)
			}
			fmt.Fprintf(b, "%s</bpmn:sequenceFlow>\n", ind)
		}
	}
}

// XML renders the definitions.
func (d *Definitions) XML() string {
	var b strings.Builder
	b.WriteString(`<?xml version="1.0" encoding="UTF-8"?>` + "\n")
	defLang := exprLang
	if d.DefLang == "xpath" {
		defLang = xpathLang
	}
	extra := ""
	if d.TypeLang {
		extra += ` typeLanguage="http://www.w3.org/2001/XMLSchema"`
	}
	if d.Exporter {
		extra += ` exporter="verif" exporterVersion="1.2"`
	}
	if d.ImplicitLang {
		emitImplicitLang = defLang
		defer func() { emitImplicitLang = "" }()
	}
	emitFlowOrder, emitFlowsFirst, emitExplicitDefaults, emitNodesReversed = d.FlowOrder, d.FlowsFirst, d.ExplicitDefaults, d.NodesReversed
	defer func() { emitFlowOrder, emitFlowsFirst, emitExplicitDefaults, emitNodesReversed = 0, false, false, false }()
	b.WriteString(`<bpmn:definitions xmlns:bpmn="http://www.omg.org/spec/BPMN/20100524/MODEL" xmlns:olive="http://olive.io/spec/BPMN/MODEL" xmlns:xsi="http://www.w3.org/2001/XMLSchema-instance" id="Defs" targetNamespace="http://bpmn.io/schema/bpmn" expressionLanguage="` + defLang + `"` + extra + `>` + "\n")
	sigs := append([]string{}, d.Signals...)
	sort.Strings(sigs)
	for _, s := range sigs {
		fmt.Fprintf(&b, "  <bpmn:signal id=\"%s\" name=\"%s\"/>\n", s, s)
	}
	msgs := append([]string{}, d.Messages...)
	sort.Strings(msgs)
	for _, s := range msgs {
		fmt.Fprintf(&b, "  <bpmn:message id=\"%s\" name=\"%s\"/>\n", s, s)
	}
	for _, s := range d.Escalations {
		fmt.Fprintf(&b, "  <bpmn:escalation id=\"%s\" name=\"%s\" escalationCode=\"%s\"/>\n", s, s, s)
	}
	for _, s := range d.Errors {
		fmt.Fprintf(&b, "  <bpmn:error id=\"%s\" name=\"%s\" errorCode=\"%s\"/>\n", s, s, s)
	}
	if len(d.MsgFlows) > 0 {
		b.WriteString("  <bpmn:collaboration id=\"Collab\">\n")
		for i, p := range d.Procs {
			fmt.Fprintf(&b, "    <bpmn:participant id=\"Part%d\" processRef=\"%s\"/>\n", i, p.ID)
		}
		for i, mf := range d.MsgFlows {
			fmt.Fprintf(&b, "    <bpmn:messageFlow id=\"MF%d\" sourceRef=\"%s\" targetRef=\"%s\"/>\n", i, mf[0], mf[1])
		}
		b.WriteString("  </bpmn:collaboration>\n")
	}
	for _, p := range d.Procs {
		fmt.Fprintf(&b, "  <bpmn:process id=\"%s\" isExecutable=\"%v\">\n", p.ID, p.Executable)
		p.emitBody(&b, "    ")
		b.WriteString("  </bpmn:process>\n")
	}
	b.WriteString(d.Zoo)
	b.WriteString("</bpmn:definitions>\n")
	return b.String()
}

// nestBody moves everything between the process's start event "Start" and its end event "End" into an embedded
// sub-process, `levels` deep (Start -> N1[ NS1 -> ...body... -> NE1 ] -> End). BPMN gives both drawings the same
// behaviour (C12); the event nodes, boundary events and timers of the body then register with the sub-process
// instead of the process, and every event handed to the instance has to pass one forwarding stage per level.
// Returns false (graph untouched) if the body is not delimited by exactly one flow at either end.
func nestBody(defs *Definitions, g *Graph, levels int) bool {
	return nestBodyBetween(defs, g, "Start", "End", levels)
}

// nestBodyBetween is nestBody for a process whose start and end event carry other ids.
func nestBodyBetween(defs *Definitions, g *Graph, startID, endID string, levels int) bool {
	done := false
	for l := 0; l < levels; l++ {
		st, en := g.Node(startID), g.Node(endID)
		if st == nil || en == nil || len(st.Out) != 1 || len(en.In) != 1 || len(en.Out) != 0 || len(st.In) != 0 {
			return done
		}
		first, last := g.Flow(st.Out[0]), g.Flow(en.In[0])
		if first == nil || last == nil || first == last {
			return done
		}
		k := defs.fresh("N")
		sg := &Graph{ID: "G" + k}
		var keepN []*Node
		for _, n := range g.Nodes {
			if n == st || n == en {
				keepN = append(keepN, n)
			} else {
				sg.Nodes = append(sg.Nodes, n)
			}
		}
		sg.Flows = g.Flows
		g.Flows = nil
		ss := &Node{ID: "S" + k, Kind: "start", Out: []string{first.ID}}
		se := &Node{ID: "E" + k, Kind: "end", In: []string{last.ID}}
		first.From, last.To = ss.ID, se.ID
		sg.Nodes = append(append([]*Node{ss}, sg.Nodes...), se)
		h := &Node{ID: k, Kind: "sub", Sub: sg}
		g.Nodes = []*Node{keepN[0], h}
		for _, n := range keepN[1:] {
			g.Nodes = append(g.Nodes, n)
		}
		st.Out, en.In = nil, nil
		g.nodeBy, g.flowBy = nil, nil
		g.connect(defs, st.ID, h.ID, nil, -1)
		g.connect(defs, h.ID, en.ID, nil, -1)
		g.index()
		done = true
	}
	return done
}

// allNodes lists the nodes of the graph and of its sub-graphs.
func (g *Graph) allNodes() []*Node {
	var out []*Node
	for _, n := range g.Nodes {
		out = append(out, n)
		if n.Sub != nil {
			out = append(out, n.Sub.allNodes()...)
		}
	}
	return out
}

// findN looks a node up in the graph or its sub-graphs (nil if absent).
func findN(g *Graph, id string) *Node {
	n, _ := g.FindNode(id)
	return n
}
