package zzverif

import (
	"fmt"
	"os"
	"path/filepath"
	"sort"
	"strings"

	"verif/sim/simrt"

	"github.com/olive-io/bpmn/schema"
)

// ---------- C15: XML round trip preserves the model and its execution behaviour ----------
//
// The schedule-dependent clause ("the engine behaves identically on the original and on the re-parsed
// model") is decided under the simulator: a generated definitions document is parsed, serialised with
// encoding/xml and parsed again, the engine runs on the RE-PARSED model under a seeded schedule and
// fault plan, and the recorded history is checked against the reference model derived from the
// ORIGINAL graph (the oracle of the scenario's own family). The structural clauses (equivalent model,
// serialising alters nothing, every id retrievable) are evaluated on the same documents before each
// run, and once per invocation on every bundled .bpmn file.

type c15Case struct {
	Family string `json:"family"`
	Inner  Case   `json:"inner"`
	Edit   int    `json:"edit,omitempty"` // > 0: the zoo process is edited in memory before serialising
	rt     *rtState
	failed bool
	env    *Env
}

func (c *c15Case) Prepare() error {
	c.rt = &rtState{edit: c.Edit}
	rtMode = c.rt
	err := c.Inner.Prepare()
	rtMode = nil
	if err != nil {
		if len(c.rt.vl.v) == 0 {
			return err
		}
		// the round trip itself failed: that is the finding, there is nothing to run
		c.failed = true
		c.env = &Env{}
	}
	return nil
}

func (c *c15Case) Main() {
	if c.failed {
		return
	}
	c.Inner.Main()
}

func (c *c15Case) Env() *Env {
	if c.failed {
		return c.env
	}
	return c.Inner.Env()
}

var c15Families = []string{"C01", "C01", "C03", "C04", "C04", "C05", "C06", "C08", "C11", "C13", "C14", "C18"}

func genC15(d *Draw) Case {
	fam := c15Families[d.N(len(c15Families))]
	var inner Case
	switch fam {
	case "C01":
		// no known-finding trigger is enabled: every clause of the token game is checked for real
		opts := ProgOpts{Kinds: []string{"seq", "xor", "and", "or", "loop", "sub", "condtask"}, OrEarlyEnd: true, Throws: true}
		var kinds []string
		for _, k := range opts.Kinds {
			if d.N(3) != 0 {
				kinds = append(kinds, k)
			}
		}
		opts.Kinds = kinds
		opts.MaxDepth = 1 + d.N(2)
		opts.MaxTasks = 3 + d.N(6)
		opts.DataConds = d.Bool()
		opts.XPath = d.Bool()
		opts.ActivityDefault = d.Bool()
		opts.EmptyBranches = d.Bool()
		prog := GenProgram(d, opts)
		pc := &ProcCase{Prog: prog, Buf: d.N(17), Hold: d.N(3)}
		pc.Picks = drawPicks(d, 48)
		inner = pc
	case "C03":
		inner = genC03(d)
	case "C04":
		inner = genC04(d)
	case "C05":
		inner = genC05(d)
	case "C06":
		inner = genC06(d)
	case "C08":
		inner = genC08(d)
	case "C11":
		inner = genC11(d)
	case "C13":
		inner = genC13(d)
	case "C14":
		inner = genC14(d)
	case "C18":
		inner = genC18(d)
	}
	// vary the attributes of the definitions element that the rest of the document relies on
	var hd *Definitions
	switch x := inner.(type) {
	case *ProcCase:
		hd = x.Prog.Defs
	case *SetCase:
		hd = x.Defs
	}
	if hd != nil {
		hd.TypeLang = d.Bool()
		hd.Exporter = d.Bool()
		hd.ImplicitLang = d.Bool()
		if d.N(3) == 2 {
			hd.DefLang = "xpath"
		}
		if _, ok := inner.(*ProcCase); ok && d.Bool() {
			hd.Zoo = zooProcess(d)
			if d.Bool() {
				return &c15Case{Family: fam, Inner: inner, Edit: 1 + d.N(1000)}
			}
		}
	}
	return &c15Case{Family: fam, Inner: inner}
}

func checkC15(cc Case, r *simrt.Result) *Outcome {
	c := cc.(*c15Case)
	o := &Outcome{Probes: map[string]int{"family-" + c.Family: 1}}
	var vl vlist
	vl.v = append(vl.v, c.rt.vl.v...)
	if c.failed {
		o.Viol = vl.v
		o.Sample = map[string]any{"family": c.Family, "round-trip": "failed"}
		return o
	}
	for _, p := range r.Panics {
		vl.add("C15/panic", "%s", p)
	}
	io := Props[c.Family].Check(c.Inner, r)
	for _, v := range io.Viol {
		if strings.HasSuffix(v.Clause, "/panic") {
			continue
		}
		// the engine ran on the re-parsed model and the oracle was derived from the original one
		vl.add("C15/behaviour-differs", "[%s scenario on the re-parsed model] %s: %s", c.Family, v.Clause, v.Detail)
	}
	o.Viol = vl.v
	o.Nontrivial = io.Nontrivial
	for k, v := range io.Probes {
		o.Probes[c.Family+":"+k] = v
	}
	if c.rt.edited > 0 {
		o.Probes["model-edited-in-memory-before-serialising"] = 1
	}
	o.Sample = map[string]any{"family": c.Family, "scenario": io.Sample, "fields-edited-in-memory": c.rt.edited}
	return o
}

// bundledRoundTrip is the schedule-free part: every bundled .bpmn file through the round trip.
func bundledRoundTrip(tier string) *Outcome {
	o := &Outcome{Probes: map[string]int{}}
	var files []string
	// the worker runs in the scratch directory; the instrumented copy of /repo's working tree is below it
	for _, root := range []string{"plain/", "race/", ""} {
		for _, pat := range []string{"testdata/*.bpmn", "schema/testdata/*.bpmn", "zz_examples/*/*.bpmn", "zz_examples/*.bpmn"} {
			m, _ := filepath.Glob(root + pat)
			files = append(files, m...)
		}
		if len(files) > 0 {
			break
		}
	}
	sort.Strings(files)
	var vl []Violation
	seen := map[string]bool{}
	parsed := 0
	for _, f := range files {
		text, err := os.ReadFile(f)
		if err != nil {
			continue
		}
		a, err := schema.Parse(text)
		if err != nil {
			o.Probes["bundled-file-not-parsable"]++
			continue
		}
		parsed++
		st := &rtState{}
		roundTrip(string(text), a, st)
		for _, v := range st.vl.v {
			// one report per clause and kind of difference, naming the first file
			key := v.Clause + "|" + diffKind(v.Detail)
			if seen[key] {
				continue
			}
			seen[key] = true
			vl = append(vl, Violation{Clause: v.Clause, Detail: fmt.Sprintf("[bundled file %s] %s", f, v.Detail)})
		}
	}
	// small documents: a plain process (no extension data on any flow node) plus ONE feature that stands alone in its
	// document - what a serialiser does "only when the document needs it" shows here
	for _, sd := range smallDocuments() {
		a, err := schema.Parse([]byte(sd.xml))
		if err != nil {
			vl = append(vl, Violation{Clause: "C15/harness", Detail: fmt.Sprintf("small document %q does not parse: %v", sd.name, err)})
			continue
		}
		st := &rtState{}
		roundTrip(sd.xml, a, st)
		for _, v := range st.vl.v {
			vl = append(vl, Violation{Clause: v.Clause, Detail: fmt.Sprintf("[small document with nothing but %s] %s", sd.name, v.Detail)})
		}
		o.Probes["small-documents-round-tripped"]++
	}
	o.Probes["bundled-files-round-tripped"] = parsed
	if parsed == 0 {
		vl = append(vl, Violation{Clause: "C15/harness", Detail: "no bundled .bpmn file found in the scratch copy"})
	}
	o.Viol = vl
	o.Sample = map[string]any{"bundled_files": len(files), "parsed": parsed}
	return o
}

// diffKind strips indices and quoted values from a difference so that the same kind of loss in many
// places is reported once.
func diffKind(s string) string {
	var b strings.Builder
	inQ := false
	for _, r := range s {
		switch {
		case r == '"':
			inQ = !inQ
		case inQ, r >= '0' && r <= '9':
		default:
			b.WriteRune(r)
		}
	}
	out := b.String()
	if i := strings.Index(out, ";"); i > 0 {
		out = out[:i]
	}
	return out
}

func init() {
	Props["C15"] = &Scenario{Gen: genC15, Check: checkC15, MaxSteps: 120000, Once: bundledRoundTrip}
}

type smallDoc struct{ name, xml string }

// smallDocuments: start -> task -> end without any extension element on a flow node, plus one lonely feature.
func smallDocuments() []smallDoc {
	head := `<?xml version="1.0" encoding="UTF-8"?>
<bpmn:definitions xmlns:bpmn="http://www.omg.org/spec/BPMN/20100524/MODEL" xmlns:olive="http://olive.io/spec/BPMN/MODEL" xmlns:bpmndi="http://www.omg.org/spec/BPMN/20100524/DI" xmlns:dc="http://www.omg.org/spec/DD/20100524/DC" xmlns:di="http://www.omg.org/spec/DD/20100524/DI" xmlns:xsi="http://www.w3.org/2001/XMLSchema-instance" id="Defs" targetNamespace="http://bpmn.io/schema/bpmn">
`
	body := func(procExt, extra, after string) string {
		return head + `  <bpmn:process id="P1" isExecutable="true">
` + procExt + `    <bpmn:startEvent id="S"><bpmn:outgoing>f1</bpmn:outgoing></bpmn:startEvent>
    <bpmn:task id="T"><bpmn:incoming>f1</bpmn:incoming><bpmn:outgoing>f2</bpmn:outgoing></bpmn:task>
    <bpmn:endEvent id="E"><bpmn:incoming>f2</bpmn:incoming></bpmn:endEvent>
` + extra + `    <bpmn:sequenceFlow id="f1" sourceRef="S" targetRef="T"/>
    <bpmn:sequenceFlow id="f2" sourceRef="T" targetRef="E"/>
  </bpmn:process>
` + after + `</bpmn:definitions>
`
	}
	return []smallDoc{
		{"a plain process", body("", "", "")},
		{"a data object with an olive:dataObjectBody", body("", `    <bpmn:dataObject id="DO" name="DO"><bpmn:extensionElements><olive:dataObjectBody>{"k": [1, 2]}</olive:dataObjectBody></bpmn:extensionElements></bpmn:dataObject>
`, "")},
		{"olive:properties on the process element", body(`    <bpmn:extensionElements><olive:properties><olive:property name="p" value="v" type="string"/></olive:properties></bpmn:extensionElements>
`, "", "")},
		{"olive:taskHeaders on the process element", body(`    <bpmn:extensionElements><olive:taskHeaders><olive:header name="h" value="1" type="integer"/></olive:taskHeaders></bpmn:extensionElements>
`, "", "")},
		{"a diagram", body("", "", `  <bpmndi:BPMNDiagram id="D1"><bpmndi:BPMNPlane id="Pl1" bpmnElement="P1"><bpmndi:BPMNShape id="T_di" bpmnElement="T"><dc:Bounds x="10" y="20" width="100" height="80"/></bpmndi:BPMNShape><bpmndi:BPMNEdge id="f1_di" bpmnElement="f1"><di:waypoint x="1" y="2"/><di:waypoint x="3" y="4"/></bpmndi:BPMNEdge></bpmndi:BPMNPlane></bpmndi:BPMNDiagram>
`)},
		{"a formal condition (xsi:type) on the only sequence flow that has one", strings.Replace(body("", "", ""), `<bpmn:sequenceFlow id="f2" sourceRef="T" targetRef="E"/>`, `<bpmn:sequenceFlow id="f2" sourceRef="T" targetRef="E"><bpmn:conditionExpression xsi:type="bpmn:tFormalExpression" language="https://github.com/expr-lang/expr">1 == 1</bpmn:conditionExpression></bpmn:sequenceFlow>`, 1)},
		{"signal, message and error root elements", body("", "", `  <bpmn:signal id="sg" name="sig name"/>
  <bpmn:message id="ms" name="msg name"/>
  <bpmn:error id="er" name="err name" errorCode="E42"/>
`)},
	}
}
