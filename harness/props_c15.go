package zzverif

import (
	"fmt"
	"os"
	"path/filepath"
	"sort"
	"strings"

	"verif/sim/simrt"

	"github.com/olive-io/bpmn/schema"
)

// ---------- C15: XML round trip preserves the model and its execution behaviour ----------
//
// The schedule-dependent clause ("the engine behaves identically on the original and on the re-parsed
// model") is decided under the simulator: a generated definitions document is parsed, serialised with
// encoding/xml and parsed again, the engine runs on the RE-PARSED model under a seeded schedule and
// fault plan, and the recorded history is checked against the reference model derived from the
// ORIGINAL graph (the oracle of the scenario's own family). The structural clauses (equivalent model,
// serialising alters nothing, every id retrievable) are evaluated on the same documents before each
// run, and once per invocation on every bundled .bpmn file.

type c15Case struct {
	Family string `json:"family"`
	Inner  Case   `json:"inner"`
	Edit   int    `json:"edit,omitempty"` // > 0: the zoo process is edited in memory before serialising
	rt     *rtState
	failed bool
	env    *Env
}

func (c *c15Case) Prepare() error {
	c.rt = &rtState{edit: c.Edit}
	rtMode = c.rt
	err := c.Inner.Prepare()
	rtMode = nil
	if err != nil {
		if len(c.rt.vl.v) == 0 {
			return err
		}
		// the round trip itself failed: that is the finding, there is nothing to run
		c.failed = true
		c.env = &Env{}
	}
	return nil
}

func (c *c15Case) Main() {
	if c.failed {
		return
	}
	c.Inner.Main()
}

func (c *c15Case) Env() *Env {
	if c.failed {
		return c.env
	}
	return c.Inner.Env()
}

var c15Families = []string{"C01", "C01", "C03", "C04", "C04", "C05", "C06", "C08", "C11", "C13", "C14", "C18"}

func genC15(d *Draw) Case {
	fam := c15Families[d.N(len(c15Families))]
	var inner Case
	switch fam {
	case "C01":
		// no known-finding trigger is enabled: every clause of the token game is checked for real
		opts := ProgOpts{Kinds: []string{"seq", "xor", "and", "or", "loop", "sub", "condtask"}, OrEarlyEnd: true}
		var kinds []string
		for _, k := range opts.Kinds {
			if d.N(3) != 0 {
				kinds = append(kinds, k)
			}
		}
		opts.Kinds = kinds
		opts.MaxDepth = 1 + d.N(2)
		opts.MaxTasks = 3 + d.N(6)
		opts.DataConds = d.Bool()
		opts.XPath = d.Bool()
		opts.ActivityDefault = d.Bool()
		opts.EmptyBranches = d.Bool()
		prog := GenProgram(d, opts)
		pc := &ProcCase{Prog: prog, Buf: d.N(17), Hold: d.N(3)}
		pc.Picks = drawPicks(d, 48)
		inner = pc
	case "C03":
		inner = genC03(d)
	case "C04":
		inner = genC04(d)
	case "C05":
		inner = genC05(d)
	case "C06":
		inner = genC06(d)
	case "C08":
		inner = genC08(d)
	case "C11":
		inner = genC11(d)
	case "C13":
		inner = genC13(d)
	case "C14":
		inner = genC14(d)
	case "C18":
		inner = genC18(d)
	}
	// vary the attributes of the definitions element that the rest of the document relies on
	var hd *Definitions
	switch x := inner.(type) {
	case *ProcCase:
		hd = x.Prog.Defs
	case *SetCase:
		hd = x.Defs
	}
	if hd != nil {
		hd.TypeLang = d.Bool()
		hd.Exporter = d.Bool()
		hd.ImplicitLang = d.Bool()
		if d.N(3) == 2 {
			hd.DefLang = "xpath"
		}
		if _, ok := inner.(*ProcCase); ok && d.Bool() {
			hd.Zoo = zooProcess(d)
			if d.Bool() {
				return &c15Case{Family: fam, Inner: inner, Edit: 1 + d.N(1000)}
			}
		}
	}
	return &c15Case{Family: fam, Inner: inner}
}

func checkC15(cc Case, r *simrt.Result) *Outcome {
	c := cc.(*c15Case)
	o := &Outcome{Probes: map[string]int{"family-" + c.Family: 1}}
	var vl vlist
	vl.v = append(vl.v, c.rt.vl.v...)
	if c.failed {
		o.Viol = vl.v
		o.Sample = map[string]any{"family": c.Family, "round-trip": "failed"}
		return o
	}
	for _, p := range r.Panics {
		vl.add("C15/panic", "%s", p)
	}
	io := Props[c.Family].Check(c.Inner, r)
	for _, v := range io.Viol {
		if strings.HasSuffix(v.Clause, "/panic") {
			continue
		}
		// the engine ran on the re-parsed model and the oracle was derived from the original one
		vl.add("C15/behaviour-differs", "[%s scenario on the re-parsed model] %s: %s", c.Family, v.Clause, v.Detail)
	}
	o.Viol = vl.v
	o.Nontrivial = io.Nontrivial
	for k, v := range io.Probes {
		o.Probes[c.Family+":"+k] = v
	}
	if c.rt.edited > 0 {
		o.Probes["model-edited-in-memory-before-serialising"] = 1
	}
	o.Sample = map[string]any{"family": c.Family, "scenario": io.Sample, "fields-edited-in-memory": c.rt.edited}
	return o
}

// bundledRoundTrip is the schedule-free part: every bundled .bpmn file through the round trip.
func bundledRoundTrip(tier string) *Outcome {
	o := &Outcome{Probes: map[string]int{}}
	var files []string
	// the worker runs in the scratch directory; the instrumented copy of /repo's working tree is below it
	for _, root := range []string{"plain/", "race/", ""} {
		for _, pat := range []string{"testdata/*.bpmn", "schema/testdata/*.bpmn", "zz_examples/*/*.bpmn", "zz_examples/*.bpmn"} {
			m, _ := filepath.Glob(root + pat)
			files = append(files, m...)
		}
		if len(files) > 0 {
			break
		}
	}
	sort.Strings(files)
	var vl []Violation
	seen := map[string]bool{}
	parsed := 0
	for _, f := range files {
		text, err := os.ReadFile(f)
		if err != nil {
			continue
		}
		a, err := schema.Parse(text)
		if err != nil {
			o.Probes["bundled-file-not-parsable"]++
			continue
		}
		parsed++
		st := &rtState{}
		roundTrip(string(text), a, st)
		for _, v := range st.vl.v {
			// one report per clause and kind of difference, naming the first file
			key := v.Clause + "|" + diffKind(v.Detail)
			if seen[key] {
				continue
			}
			seen[key] = true
			vl = append(vl, Violation{Clause: v.Clause, Detail: fmt.Sprintf("[bundled file %s] %s", f, v.Detail)})
		}
	}
	o.Probes["bundled-files-round-tripped"] = parsed
	if parsed == 0 {
		vl = append(vl, Violation{Clause: "C15/harness", Detail: "no bundled .bpmn file found in the scratch copy"})
	}
	o.Viol = vl
	o.Sample = map[string]any{"bundled_files": len(files), "parsed": parsed}
	return o
}

// diffKind strips indices and quoted values from a difference so that the same kind of loss in many
// places is reported once.
func diffKind(s string) string {
	var b strings.Builder
	inQ := false
	for _, r := range s {
		switch {
		case r == '"':
			inQ = !inQ
		case inQ, r >= '0' && r <= '9':
		default:
			b.WriteRune(r)
		}
	}
	out := b.String()
	if i := strings.Index(out, ";"); i > 0 {
		out = out[:i]
	}
	return out
}

func init() {
	Props["C15"] = &Scenario{Gen: genC15, Check: checkC15, MaxSteps: 120000, Once: bundledRoundTrip}
}
