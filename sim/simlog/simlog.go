// Package simlog is the harness' shared history log. The simulator lets only one simulated goroutine
// run at a time, so the log needs no lock; its accesses are hidden from the race detector
// (//go:norace) so that driver goroutines do not gain happens-before edges through it (a lock here
// would order driver goroutines and could mask races inside the engine).
package simlog

import "verif/sim/simrt"

// Ev is one observation, stamped with the scheduler's global step number.
type Ev struct {
	Step int64  `json:"s"`
	Kind string `json:"k"`
	A    string `json:"a,omitempty"`
	B    string `json:"b,omitempty"`
	N    int    `json:"n,omitempty"`
	G    int    `json:"g,omitempty"` // observer / client index
	V    any    `json:"v,omitempty"`
}

type Log struct {
	E []Ev
}

//go:norace
func (l *Log) Add(kind, a, b string, n int) {
	l.E = append(l.E, Ev{Step: simrt.Step(), Kind: kind, A: a, B: b, N: n})
}

//go:norace
func (l *Log) AddG(g int, kind, a, b string, n int) {
	l.E = append(l.E, Ev{Step: simrt.Step(), Kind: kind, A: a, B: b, N: n, G: g})
}

//go:norace
func (l *Log) AddV(kind, a string, v any) {
	l.E = append(l.E, Ev{Step: simrt.Step(), Kind: kind, A: a, V: v})
}

//go:norace
func (l *Log) Len() int { return len(l.E) }

// Cell is an unsynchronised shared integer for driver bookkeeping (same reasoning as Log).
type Cell struct{ v int64 }

//go:norace
func (c *Cell) Get() int64 { return c.v }

//go:norace
func (c *Cell) Set(v int64) { c.v = v }

//go:norace
func (c *Cell) Add(d int64) int64 { c.v += d; return c.v }
