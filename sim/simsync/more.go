package simsync

import (
	"unsafe"

	"verif/sim/simrt"
)

// The rest of package sync, so that a change to the module under test that starts using one of these
// still builds under the simulator.

// Pool mirrors sync.Pool. The real pool may drop items at any time and keeps per-P caches; this one
// hands the most recently returned item straight back (the adversarial choice for code that keeps using
// an item after Put), or - a tape choice - behaves as if the item had been dropped.
type Pool struct {
	New   func() any
	items []any
	tag   byte
}

//go:norace
func (p *Pool) Put(x any) {
	simrt.Yield("Pool.Put")
	if x == nil {
		return
	}
	simrt.RaceReleaseMerge(unsafe.Pointer(&p.tag))
	p.items = append(p.items, x)
}

//go:norace
func (p *Pool) Get() any {
	simrt.Yield("Pool.Get")
	if n := len(p.items); n > 0 {
		x := p.items[n-1]
		p.items = p.items[:n-1]
		simrt.RaceAcquire(unsafe.Pointer(&p.tag))
		return x
	}
	if p.New != nil {
		return p.New()
	}
	return nil
}

// Cond mirrors sync.Cond.
type Cond struct {
	L   Locker
	q   []chan struct{}
	tag byte
}

func NewCond(l Locker) *Cond { return &Cond{L: l} }

//go:norace
func (c *Cond) enqueue() chan struct{} {
	ch := make(chan struct{})
	c.q = append(c.q, ch)
	return ch
}

func (c *Cond) Wait() {
	e := simrt.Pre("Cond.Wait")
	ch := c.enqueue()
	c.L.Unlock()
	block(ch)
	simrt.Post(e, "Cond.Wait")
	c.L.Lock()
}

//go:norace
func (c *Cond) Signal() {
	simrt.Yield("Cond.Signal")
	if len(c.q) == 0 {
		return
	}
	ch := c.q[0]
	c.q = c.q[1:]
	simrt.RaceDisable()
	close(ch)
	simrt.RaceEnable()
}

//go:norace
func (c *Cond) Broadcast() {
	simrt.Yield("Cond.Broadcast")
	w := c.q
	c.q = nil
	simrt.RaceDisable()
	for _, ch := range w {
		close(ch)
	}
	simrt.RaceEnable()
}

// Map mirrors sync.Map; Range visits the keys in insertion order (the simulation has to replay).
type Map struct {
	m    map[any]any
	keys []any
	tag  byte
}

//go:norace
func (m *Map) load(k any) (any, bool) {
	v, ok := m.m[k]
	if ok {
		simrt.RaceAcquire(unsafe.Pointer(&m.tag))
	}
	return v, ok
}

//go:norace
func (m *Map) store(k, v any) {
	if m.m == nil {
		m.m = map[any]any{}
	}
	if _, ok := m.m[k]; !ok {
		m.keys = append(m.keys, k)
	}
	simrt.RaceReleaseMerge(unsafe.Pointer(&m.tag))
	m.m[k] = v
}

//go:norace
func (m *Map) del(k any) {
	if _, ok := m.m[k]; !ok {
		return
	}
	delete(m.m, k)
	for i, x := range m.keys {
		if x == k {
			m.keys = append(m.keys[:i:i], m.keys[i+1:]...)
			break
		}
	}
}

func (m *Map) Load(key any) (value any, ok bool) {
	simrt.Yield("Map.Load")
	return m.load(key)
}

func (m *Map) Store(key, value any) {
	simrt.Yield("Map.Store")
	m.store(key, value)
}

func (m *Map) Clear() {
	simrt.Yield("Map.Clear")
	m.clear()
}

//go:norace
func (m *Map) clear() { m.m, m.keys = nil, nil }

func (m *Map) LoadOrStore(key, value any) (actual any, loaded bool) {
	simrt.Yield("Map.LoadOrStore")
	if v, ok := m.load(key); ok {
		return v, true
	}
	m.store(key, value)
	return value, false
}

func (m *Map) LoadAndDelete(key any) (value any, loaded bool) {
	simrt.Yield("Map.LoadAndDelete")
	v, ok := m.load(key)
	if ok {
		m.del(key)
	}
	return v, ok
}

func (m *Map) Delete(key any) {
	simrt.Yield("Map.Delete")
	m.del(key)
}

func (m *Map) Swap(key, value any) (previous any, loaded bool) {
	simrt.Yield("Map.Swap")
	previous, loaded = m.load(key)
	m.store(key, value)
	return
}

func (m *Map) CompareAndSwap(key, old, new any) bool {
	simrt.Yield("Map.CompareAndSwap")
	if v, ok := m.load(key); ok && v == old {
		m.store(key, new)
		return true
	}
	return false
}

func (m *Map) CompareAndDelete(key, old any) bool {
	simrt.Yield("Map.CompareAndDelete")
	if v, ok := m.load(key); ok && v == old {
		m.del(key)
		return true
	}
	return false
}

//go:norace
func (m *Map) snapshot() []any { return append([]any(nil), m.keys...) }

func (m *Map) Range(f func(key, value any) bool) {
	simrt.Yield("Map.Range")
	for _, k := range m.snapshot() {
		v, ok := m.load(k)
		if !ok {
			continue
		}
		if !f(k, v) {
			return
		}
	}
}

// OnceFunc, OnceValue and OnceValues mirror the functions of the same name.
func OnceFunc(f func()) func() {
	var once Once
	var valid bool
	var p any
	g := func() {
		defer func() {
			p = recover()
			if !valid {
				panic(p)
			}
		}()
		f()
		f = nil
		valid = true
	}
	return func() {
		once.Do(g)
		if !valid {
			panic(p)
		}
	}
}

func OnceValue[T any](f func() T) func() T {
	var once Once
	var valid bool
	var p any
	var result T
	g := func() {
		defer func() {
			p = recover()
			if !valid {
				panic(p)
			}
		}()
		result = f()
		f = nil
		valid = true
	}
	return func() T {
		once.Do(g)
		if !valid {
			panic(p)
		}
		return result
	}
}

func OnceValues[T1, T2 any](f func() (T1, T2)) func() (T1, T2) {
	var once Once
	var valid bool
	var p any
	var r1 T1
	var r2 T2
	g := func() {
		defer func() {
			p = recover()
			if !valid {
				panic(p)
			}
		}()
		r1, r2 = f()
		f = nil
		valid = true
	}
	return func() (T1, T2) {
		once.Do(g)
		if !valid {
			panic(p)
		}
		return r1, r2
	}
}
