// Package simsync provides drop-in replacements for the sync types used by the module under test.
//
// They yield to the simulator before every operation and block on channels (durable blocking in
// synctest's sense; a goroutine parked on a real sync.Mutex would stop the bubble's clock). Because
// the scheduler lets only one simulated goroutine run at a time, their own state needs no lock; it
// is hidden from the race detector (//go:norace, and the wake-up channels are used inside
// RaceDisable brackets), and the happens-before edges the detector sees are exactly those the
// standard library annotates for the real primitives (RaceAcquire/Release/ReleaseMerge below).
// The next owner of a contended lock is whoever the scheduler releases first, i.e. a tape choice.
package simsync

import (
	"unsafe"

	"verif/sim/simrt"
)

type Locker interface {
	Lock()
	Unlock()
}

type waitq struct {
	wait []chan struct{}
}

//go:norace
func (q *waitq) add() chan struct{} {
	ch := make(chan struct{})
	q.wait = append(q.wait, ch)
	return ch
}

//go:norace
func (q *waitq) wakeAll() {
	w := q.wait
	q.wait = nil
	simrt.RaceDisable()
	for _, ch := range w {
		close(ch)
	}
	simrt.RaceEnable()
}

//go:norace
func block(ch chan struct{}) {
	simrt.RaceDisable()
	<-ch
	simrt.RaceEnable()
}

// Mutex mirrors sync.Mutex.
type Mutex struct {
	locked bool
	q      waitq
	tag    byte // address used for race annotations
}

//go:norace
func (m *Mutex) Lock() {
	e := simrt.Pre("Mutex.Lock")
	for {
		if !m.locked {
			m.locked = true
			simrt.RaceAcquire(unsafe.Pointer(&m.tag))
			return
		}
		ch := m.q.add()
		block(ch)
		e = simrt.Post(e, "Mutex.Lock")
	}
}

//go:norace
func (m *Mutex) TryLock() bool {
	simrt.Yield("Mutex.TryLock")
	if m.locked {
		return false
	}
	m.locked = true
	simrt.RaceAcquire(unsafe.Pointer(&m.tag))
	return true
}

//go:norace
func (m *Mutex) Unlock() {
	simrt.Yield("Mutex.Unlock")
	if !m.locked {
		panic("sync: unlock of unlocked mutex")
	}
	simrt.RaceRelease(unsafe.Pointer(&m.tag))
	m.locked = false
	m.q.wakeAll()
}

// RWMutex mirrors sync.RWMutex step by step: writers are serialised by an inner mutex, a writer
// that has announced itself blocks new readers and waits for the readers that were active at that
// moment, and Unlock admits every blocked reader before the next writer can announce itself. No
// schedule is produced that the real primitive forbids.
type RWMutex struct {
	wHeld      bool // inner writer mutex
	wq         waitq
	pending    bool // a writer has announced itself (holds or waits for the lock)
	active     int  // readers holding the lock
	readerWait int  // departing readers the announced writer still waits for
	rq         waitq
	wch        chan struct{}
	w          byte
	readerSem  byte
	writerSem  byte
}

//go:norace
func (rw *RWMutex) Lock() {
	e := simrt.Pre("RWMutex.Lock")
	for rw.wHeld {
		ch := rw.wq.add()
		block(ch)
		e = simrt.Post(e, "RWMutex.Lock")
	}
	rw.wHeld = true
	simrt.RaceAcquire(unsafe.Pointer(&rw.w))
	rw.pending = true
	if rw.active > 0 {
		rw.readerWait = rw.active
		rw.wch = make(chan struct{})
		block(rw.wch)
		simrt.Post(e, "RWMutex.Lock")
	}
	simrt.RaceAcquire(unsafe.Pointer(&rw.readerSem))
	simrt.RaceAcquire(unsafe.Pointer(&rw.writerSem))
}

//go:norace
func (rw *RWMutex) TryLock() bool {
	simrt.Yield("RWMutex.TryLock")
	if rw.wHeld || rw.pending || rw.active > 0 {
		return false
	}
	rw.wHeld = true
	rw.pending = true
	simrt.RaceAcquire(unsafe.Pointer(&rw.w))
	simrt.RaceAcquire(unsafe.Pointer(&rw.readerSem))
	simrt.RaceAcquire(unsafe.Pointer(&rw.writerSem))
	return true
}

//go:norace
func (rw *RWMutex) Unlock() {
	simrt.Yield("RWMutex.Unlock")
	if !rw.pending || !rw.wHeld {
		panic("sync: Unlock of unlocked RWMutex")
	}
	simrt.RaceRelease(unsafe.Pointer(&rw.readerSem))
	rw.pending = false
	// every blocked reader is admitted now
	rw.active += len(rw.rq.wait)
	rw.rq.wakeAll()
	simrt.RaceRelease(unsafe.Pointer(&rw.w))
	rw.wHeld = false
	rw.wq.wakeAll()
}

//go:norace
func (rw *RWMutex) RLock() {
	e := simrt.Pre("RWMutex.RLock")
	if !rw.pending {
		rw.active++
	} else {
		ch := rw.rq.add()
		block(ch) // admitted (and counted) by Unlock
		simrt.Post(e, "RWMutex.RLock")
	}
	simrt.RaceAcquire(unsafe.Pointer(&rw.readerSem))
}

//go:norace
func (rw *RWMutex) TryRLock() bool {
	simrt.Yield("RWMutex.TryRLock")
	if rw.pending {
		return false
	}
	rw.active++
	simrt.RaceAcquire(unsafe.Pointer(&rw.readerSem))
	return true
}

//go:norace
func (rw *RWMutex) RUnlock() {
	simrt.Yield("RWMutex.RUnlock")
	if rw.active <= 0 {
		panic("sync: RUnlock of unlocked RWMutex")
	}
	simrt.RaceReleaseMerge(unsafe.Pointer(&rw.writerSem))
	rw.active--
	if rw.pending && rw.readerWait > 0 {
		rw.readerWait--
		if rw.readerWait == 0 {
			ch := rw.wch
			rw.wch = nil
			simrt.RaceDisable()
			close(ch)
			simrt.RaceEnable()
		}
	}
}

type rlocker RWMutex

func (r *rlocker) Lock()   { (*RWMutex)(r).RLock() }
func (r *rlocker) Unlock() { (*RWMutex)(r).RUnlock() }

func (rw *RWMutex) RLocker() Locker { return (*rlocker)(rw) }

// WaitGroup mirrors sync.WaitGroup.
type WaitGroup struct {
	n       int
	waiters int
	q       waitq
	tag     byte
	sema    byte
}

//go:norace
func (wg *WaitGroup) Add(d int) {
	simrt.Yield("WaitGroup.Add")
	if d < 0 {
		simrt.RaceReleaseMerge(unsafe.Pointer(&wg.tag))
	}
	wg.n += d
	if wg.n < 0 {
		panic("sync: negative WaitGroup counter")
	}
	if d > 0 && wg.n == d {
		// first increment must be synchronized with Wait (same annotation as the standard library)
		simrt.RaceRead(unsafe.Pointer(&wg.sema))
	}
	if wg.n == 0 {
		wg.waiters = 0
		wg.q.wakeAll()
	}
}

func (wg *WaitGroup) Done() { wg.Add(-1) }

//go:norace
func (wg *WaitGroup) Wait() {
	e := simrt.Pre("WaitGroup.Wait")
	if wg.n == 0 {
		simrt.RaceAcquire(unsafe.Pointer(&wg.tag))
		return
	}
	if wg.waiters == 0 {
		simrt.RaceWrite(unsafe.Pointer(&wg.sema))
	}
	wg.waiters++
	ch := wg.q.add()
	block(ch)
	simrt.Post(e, "WaitGroup.Wait")
	// the standard library's misuse check: between the release of the waiters and this one's return nobody
	// may have started to use the group again (an Add from zero, or a new waiter)
	if wg.n != 0 || wg.waiters != 0 {
		panic("sync: WaitGroup is reused before previous Wait has returned")
	}
	simrt.RaceAcquire(unsafe.Pointer(&wg.tag))
}

// Go mirrors WaitGroup.Go (Go 1.25+).
func (wg *WaitGroup) Go(f func()) {
	wg.Add(1)
	sp := simrt.Spawn("WaitGroup.Go")
	go func() {
		simrt.GoStart(sp)
		defer simrt.GoExit(sp)
		defer wg.Done()
		f()
	}()
}

// Once mirrors sync.Once.
type Once struct {
	done bool
	m    Mutex
	tag  byte
}

//go:norace
func (o *Once) isDone() bool {
	if o.done {
		simrt.RaceAcquire(unsafe.Pointer(&o.tag))
		return true
	}
	return false
}

//go:norace
func (o *Once) setDone() {
	simrt.RaceRelease(unsafe.Pointer(&o.tag))
	o.done = true
}

func (o *Once) Do(f func()) {
	simrt.Yield("Once.Do")
	if o.isDone() {
		return
	}
	o.m.Lock()
	defer o.m.Unlock()
	if !o.isDone() {
		defer o.setDone()
		f()
	}
}
