// Package zzsimaux is copied into the scratch copy of the module under test and instrumented like the rest
// of it. It re-implements the few standard-library calls that start goroutines of their own (which the
// simulator would neither see nor schedule, so that runs would stop being repeatable); the instrumenter
// redirects calls of context.AfterFunc and time.AfterFunc here.
package zzsimaux

import (
	"context"
	"time"
)

// once hands out exactly one claim.
type once struct{ ch chan struct{} }

func newOnce() once {
	o := once{ch: make(chan struct{}, 1)}
	o.ch <- struct{}{}
	return o
}

func (o once) claim() bool {
	select {
	case <-o.ch:
		return true
	default:
		return false
	}
}

// CtxAfterFunc mirrors context.AfterFunc: f runs in its own goroutine once ctx is done, unless stop wins.
func CtxAfterFunc(ctx context.Context, f func()) (stop func() bool) {
	o := newOnce()
	stopped := make(chan struct{})
	go func() {
		select {
		case <-ctx.Done():
			if o.claim() {
				f()
			}
		case <-stopped:
		}
	}()
	return func() bool {
		if o.claim() {
			close(stopped)
			return true
		}
		return false
	}
}

// Timer is what TimeAfterFunc returns instead of a *time.Timer.
type Timer struct {
	f       func()
	o       once
	stopped chan struct{}
}

// TimeAfterFunc mirrors time.AfterFunc: f runs in its own goroutine after d, unless Stop wins.
func TimeAfterFunc(d time.Duration, f func()) *Timer {
	t := &Timer{f: f}
	t.arm(d)
	return t
}

func (t *Timer) arm(d time.Duration) {
	t.o = newOnce()
	t.stopped = make(chan struct{})
	o, stopped, f := t.o, t.stopped, t.f
	go func() {
		select {
		case <-time.After(d):
			if o.claim() {
				f()
			}
		case <-stopped:
		}
	}()
}

// Stop prevents the timer from firing; it reports whether it did.
func (t *Timer) Stop() bool {
	if t.o.claim() {
		close(t.stopped)
		return true
	}
	return false
}

// Reset re-arms the timer; it reports whether the timer had been active.
func (t *Timer) Reset(d time.Duration) bool {
	active := t.Stop()
	t.arm(d)
	return active
}
