//go:build !race

package simrt

import "unsafe"

const RaceEnabled = false

func raceDisable() {}
func raceEnable()  {}

func RaceDisable() {}
func RaceEnable()  {}

func RaceAcquire(p unsafe.Pointer)      {}
func RaceRelease(p unsafe.Pointer)      {}
func RaceReleaseMerge(p unsafe.Pointer) {}
func RaceRead(p unsafe.Pointer)         {}
func RaceWrite(p unsafe.Pointer)        {}

func RaceErrors() int { return 0 }
