// Package simrt is the deterministic scheduler of the verification harness.
//
// Real goroutines run real code inside one testing/synctest bubble, but only one of them at a
// time executes code of the module under test or of the driver. Every synchronisation point of
// the instrumented tree calls into this package, parks, and is released by the scheduler, which
// takes each decision from a Tape. All scheduler state lives in the scheduler goroutine; simulated
// goroutines talk to it over channels and atomics only, always inside RaceDisable/RaceEnable
// brackets, so the race detector sees nothing of the hand-off (and therefore still reports races
// between accesses that the simulator executed far apart).
package simrt

import (
	"fmt"
	"reflect"
	"runtime"
	"sort"
	"strconv"
	"strings"
	"sync/atomic"
	"testing/synctest"
	"time"
)

// Tape is the only source of decisions.
type Tape interface {
	// Choose returns a value in [0,n). Value 0 is always "the simplest choice".
	Choose(kind string, n int) int
}

type wakeMsg struct {
	ent   uint64
	child int
	rot   int // how often this goroutine has already asked for entropy at this site
}

type parkReq struct {
	goid    int64
	simID   int // >=0 when the goroutine knows its id (spawned by an instrumented go statement)
	site    string
	wake    chan wakeMsg
	exit    bool
	pan     string
	spawn   bool // the goroutine is about to execute a go statement: reserve a child id
	needEnt int  // 0: none, else the scheduler draws an entropy word for a choice among needEnt! orders
}

const (
	stRunning = iota
	stParked
	stBlocked
	stDone
)

// G is the scheduler's record of one simulated goroutine.
type G struct {
	ID        int
	goid      int64
	SpawnSite string
	wake      chan wakeMsg
	state     int
	Site      string // last site seen
	req       parkReq
	Steps     int
	recent    [6]string // sites of the last steps (busy-loop detection)
	lastRun   int
	visits    map[string]int
}

// spinning reports a goroutine whose last six steps visited at most two distinct sites: a busy
// loop polling for something only other goroutines can bring about (e.g. the tracer re-selecting on
// a cancelled context until its senders are done).
func (g *G) spinning() bool {
	if g.Steps < len(g.recent) {
		return false
	}
	a, b := g.recent[0], ""
	for _, s := range g.recent[1:] {
		if s == a || s == b {
			continue
		}
		if b == "" {
			b = s
			continue
		}
		return false
	}
	return true
}

// Config of one simulated run.
type Config struct {
	Tape     Tape
	MaxSteps int
	Horizon  time.Duration
	Trace    bool // keep the full schedule log
}

// Result of one simulated run.
type Result struct {
	Steps     int
	Switches  int
	Hash      uint64 // rolling hash of (goroutine id, site) per step
	StepCap   bool
	Horizon   bool
	Panics    []string
	Log       []string
	Spawned   int
	IdleJumps int
	FairnessSwitches int
	all       []*G
	SimTime   time.Duration
}

type sched struct {
	dead   bool // tombstone: the run is over, any goroutine that still arrives blocks forever
	parkCh chan parkReq
	epoch  atomic.Int64
	stepNo atomic.Int64
	curG   atomic.Int64
	byGoid map[int64]*G
	all    []*G
	last   *G
	cfg    Config
	res    *Result
}

var cur atomic.Pointer[sched]

//go:norace
func goid() int64 {
	var buf [64]byte
	n := runtime.Stack(buf[:], false)
	s := buf[10:n]
	i := 0
	for i < len(s) && s[i] >= '0' && s[i] <= '9' {
		i++
	}
	v, _ := strconv.ParseInt(string(s[:i]), 10, 64)
	return v
}

// Active reports whether a simulation is running.
//
//go:norace
func Active() bool {
	raceDisable()
	defer raceEnable()
	return cur.Load() != nil
}

// Step returns the current scheduler step number (0 outside a simulation). It is the global event
// sequence number used to stamp observations.
//
//go:norace
func Step() int64 {
	raceDisable()
	defer raceEnable()
	s := cur.Load()
	if s == nil {
		return 0
	}
	return s.stepNo.Load()
}

//go:norace
func yieldReq(s *sched, r parkReq) wakeMsg {
	w := make(chan wakeMsg)
	if s.dead {
		select {}
	}
	r.goid = goid()
	r.wake = w
	s.parkCh <- r
	return <-w
}

//go:norace
func yield(s *sched, site string) wakeMsg {
	return yieldReq(s, parkReq{site: site, simID: -1})
}

// Yield parks the calling goroutine until the scheduler picks it.
//
//go:norace
func Yield(site string) {
	raceDisable()
	if s := cur.Load(); s != nil {
		yield(s, site)
	}
	raceEnable()
}

// Entropy parks and returns a tape-chosen word in [0,n).
//
//go:norace
func Entropy(site string, n int) int {
	k, _ := entropyRot(site, n)
	return k
}

// entropyRot also returns how many times the calling goroutine has asked at this site before. A
// select or map iteration whose tape value is 0 ("source order") uses it to rotate its probe order,
// so that a loop re-executing the same select does not starve its later cases (the runtime's select
// is fair); the first execution is unaffected.
//
//go:norace
func entropyRot(site string, n int) (int, int) {
	raceDisable()
	defer raceEnable()
	s := cur.Load()
	if s == nil || n <= 1 {
		return 0, 0
	}
	m := yieldReq(s, parkReq{site: site, simID: -1, needEnt: n})
	return int(m.ent), m.rot
}

// CurG returns the simulated id of the goroutine that is currently allowed to run (-1 outside a
// simulation). Only one simulated goroutine runs at a time, so this is the caller's own id.
//
//go:norace
func CurG() int {
	raceDisable()
	defer raceEnable()
	s := cur.Load()
	if s == nil {
		return -1
	}
	return int(s.curG.Load())
}

// Pre yields and returns the scheduling epoch to be passed to Post.
//
//go:norace
func Pre(site string) int64 {
	raceDisable()
	defer raceEnable()
	s := cur.Load()
	if s == nil {
		return 0
	}
	yield(s, site)
	return s.epoch.Load()
}

// Post is called after a potentially blocking real operation returned: if the goroutine lost its
// turn while blocked it parks again.
//
//go:norace
func Post(e int64, site string) int64 {
	raceDisable()
	defer raceEnable()
	s := cur.Load()
	if s == nil {
		return 0
	}
	if s.epoch.Load() != e {
		yield(s, site+"+w")
	}
	return s.epoch.Load()
}

// Spawned is the hand-over between a go statement and its child.
type Spawned struct {
	site string
	id   int
}

// Spawn is called by the parent just before the go statement.
//
//go:norace
func Spawn(site string) *Spawned {
	raceDisable()
	defer raceEnable()
	s := cur.Load()
	if s == nil {
		return &Spawned{site: site, id: -1}
	}
	m := yieldReq(s, parkReq{site: "go@" + site, spawn: true, simID: -1})
	return &Spawned{site: site, id: m.child}
}

// GoStart is the first thing the child does.
//
//go:norace
func GoStart(sp *Spawned) {
	raceDisable()
	defer raceEnable()
	s := cur.Load()
	if s == nil || sp.id < 0 {
		return
	}
	yieldReq(s, parkReq{site: "start@" + sp.site, simID: sp.id})
}

// GoExit is deferred by the child: it records the exit and converts a panic into a recorded
// observation instead of killing the worker process.
func GoExit(sp *Spawned) {
	r := recover()
	goExit(sp, r)
}

//go:norace
func goExit(sp *Spawned, r any) {
	raceDisable()
	defer raceEnable()
	s := cur.Load()
	if s == nil {
		if r != nil {
			panic(r)
		}
		return
	}
	if s.dead {
		return // a goroutine left over from a finished run; its panic (if any) is not an observation
	}
	req := parkReq{goid: goid(), simID: -1, site: sp.site, exit: true}
	if r != nil {
		buf := make([]byte, 16384)
		n := runtime.Stack(buf, false)
		req.pan = fmt.Sprintf("panic in goroutine spawned at %s: %v\n%s", sp.site, r, buf[:n])
	}
	s.parkCh <- req
}

func (s *sched) handle(r parkReq) {
	g := s.byGoid[r.goid]
	if g == nil {
		if r.simID >= 0 && r.simID < len(s.all) && s.all[r.simID].goid == 0 {
			g = s.all[r.simID]
			g.goid = r.goid
		} else {
			// first contact of a goroutine that was not spawned through an instrumented go statement
			g = &G{ID: len(s.all), goid: r.goid, SpawnSite: "?" + r.site}
			s.all = append(s.all, g)
		}
		s.byGoid[r.goid] = g
	}
	if r.exit {
		g.state = stDone
		if r.pan != "" {
			s.res.Panics = append(s.res.Panics, r.pan)
		}
		delete(s.byGoid, r.goid)
		return
	}
	g.state = stParked
	g.Site = r.site
	g.wake = r.wake
	g.req = r
}

func (s *sched) drain() {
	for {
		select {
		case r := <-s.parkCh:
			s.handle(r)
		default:
			return
		}
	}
}

func hashStr(h uint64, s string) uint64 {
	for i := 0; i < len(s); i++ {
		h ^= uint64(s[i])
		h *= 1099511628211
	}
	return h
}

// Run executes main as simulated goroutine 0. It must be called inside a synctest bubble, from the
// bubble's root goroutine, which becomes the scheduler.
func Run(cfg Config, main func()) *Result {
	res, done := run(cfg, main)
	// a visible synchronisation edge from the end of main to the caller (the loop itself runs with
	// synchronisation events ignored)
	select {
	case <-done:
	default:
	}
	return res
}

func run(cfg Config, main func()) (*Result, chan struct{}) {
	if cfg.MaxSteps == 0 {
		cfg.MaxSteps = 60000
	}
	if cfg.Horizon == 0 {
		cfg.Horizon = 24 * time.Hour
	}
	res := &Result{Hash: 14695981039346656037}
	s := &sched{byGoid: map[int64]*G{}, parkCh: make(chan parkReq), cfg: cfg, res: res}
	g0 := &G{ID: 0, SpawnSite: "main"}
	s.all = append(s.all, g0)
	mainDone := make(chan struct{})
	start := time.Now()
	cur.Store(s)
	// After the run, goroutines that were left behind must never execute module code again (the
	// bubble's clock keeps firing their timers while synctest waits for them): a tombstone
	// scheduler makes them block forever at their next yield. Reset() clears it.
	defer cur.Store(&sched{dead: true})
	go func() {
		sp := &Spawned{site: "main", id: 0}
		GoStart(sp)
		defer close(mainDone)
		defer GoExit(sp)
		main()
	}()
	raceDisable()
	defer raceEnable()
	defer func() {
		res.all = s.all
		res.SimTime = time.Since(start)
		res.Spawned = len(s.all)
	}()
	for {
		synctest.Wait()
		s.drain()
		if s.last != nil && s.last.state == stRunning {
			s.last.state = stBlocked
		}
		if s.all[0].state == stDone {
			// main has sent its exit notice; its wrapper closes mainDone right after
			<-mainDone
			return res, mainDone
		}
		var run []*G
		for _, g := range s.all {
			if g.state == stParked {
				run = append(run, g)
			}
		}
		if len(run) == 0 {
			s.epoch.Add(1)
			s.last = nil
			res.IdleJumps++
			remaining := cfg.Horizon - time.Since(start)
			if remaining <= 0 {
				res.Horizon = true
				return res, mainDone
			}
			raceEnable() // (stdlib first-use synchronisation inside an ignore bracket would show up as an artefact report)
			tm := time.NewTimer(remaining)
			raceDisable()
			select {
			case r := <-s.parkCh:
				tm.Stop()
				s.handle(r)
			case <-mainDone:
				tm.Stop()
				return res, mainDone
			case <-tm.C:
				res.Horizon = true
				return res, mainDone
			}
			continue
		}
		// order: the goroutine that ran last first (choice 0 = no context switch), then by id
		sort.Slice(run, func(i, j int) bool {
			li, lj := run[i] == s.last, run[j] == s.last
			if li != lj {
				return li
			}
			return run[i].ID < run[j].ID
		})
		k := 0
		if len(run) > 1 {
			if sc, ok := cfg.Tape.(interface {
				ChooseSched(ids []int, lastRunnable bool) int
			}); ok {
				ids := make([]int, len(run))
				for i, x := range run {
					ids[i] = x.ID
				}
				k = sc.ChooseSched(ids, run[0] == s.last) % len(run)
			} else {
				k = cfg.Tape.Choose("sched", len(run)) % len(run)
			}
		}
		g := run[k]
		if k == 0 && len(run) > 1 && g == s.last && g.spinning() {
			// "keep running the current goroutine" would starve everybody behind a busy loop, which no
			// real (preemptive) scheduler does: hand over to the runnable goroutine that has waited
			// longest and is not itself polling. Deterministic, consumes no tape.
			var best, bestSpin *G
			for _, x := range run[1:] {
				if x.spinning() {
					if bestSpin == nil || x.lastRun < bestSpin.lastRun {
						bestSpin = x
					}
					continue
				}
				if best == nil || x.lastRun < best.lastRun {
					best = x
				}
			}
			if best == nil {
				best = bestSpin // only pollers are runnable: rotate among them
			}
			if best != nil {
				g = best
				res.FairnessSwitches++
			}
		}
		if g != s.last {
			res.Switches++
		}
		res.Steps++
		s.stepNo.Add(1)
		res.Hash = hashStr(res.Hash*31+uint64(g.ID), g.Site)
		if cfg.Trace {
			res.Log = append(res.Log, fmt.Sprintf("%d g%d/%d %s", res.Steps, g.ID, len(run), g.Site))
		}
		if res.Steps > cfg.MaxSteps {
			res.StepCap = true
			return res, mainDone
		}
		var m wakeMsg
		if g.req.needEnt > 1 {
			m.ent = uint64(cfg.Tape.Choose("ent", g.req.needEnt))
			if g.visits == nil {
				g.visits = map[string]int{}
			}
			m.rot = g.visits[g.req.site]
			g.visits[g.req.site]++
		}
		if g.req.spawn {
			c := &G{ID: len(s.all), SpawnSite: strings.TrimPrefix(g.req.site, "go@"), state: stBlocked}
			s.all = append(s.all, c)
			m.child = c.ID
		}
		g.state = stRunning
		s.curG.Store(int64(g.ID))
		copy(g.recent[:], g.recent[1:])
		g.recent[len(g.recent)-1] = g.Site
		g.lastRun = res.Steps
		g.Steps++
		s.last = g
		s.epoch.Add(1)
		g.wake <- m
	}
}

// Reset removes the tombstone left by Run; call it after synctest.Test has returned.
func Reset() { cur.Store(nil) }

// LiveG describes a goroutine that had not exited when the run ended.
type LiveG struct {
	ID        int
	SpawnSite string
	Site      string
	State     string
}

// Live lists the simulated goroutines that have not exited (exact leak table).
func (r *Result) Live() []LiveG {
	var out []LiveG
	for _, g := range r.all {
		if g.state != stDone {
			st := "parked"
			switch g.state {
			case stBlocked:
				st = "blocked"
			case stRunning:
				st = "running"
			}
			if g.goid == 0 && g.ID != 0 {
				st = "never-started"
			}
			out = append(out, LiveG{ID: g.ID, SpawnSite: g.SpawnSite, Site: g.Site, State: st})
		}
	}
	return out
}

// ---- channel helpers used by instrumented code ----

func Recv[T any](site string, c <-chan T) T {
	e := Pre(site)
	v := <-c
	Post(e, site)
	return v
}

func Recv2[T any](site string, c <-chan T) (T, bool) {
	e := Pre(site)
	v, ok := <-c
	Post(e, site)
	return v, ok
}

// Sel is the outcome of a simulated select.
type Sel struct {
	idx int
	val reflect.Value
	ok  bool
}

// Case is one communication clause of a select statement.
type Case struct {
	Send bool
	Ch   any
	Val  any
}

func R(ch any) Case        { return Case{Ch: ch} }
func S(ch any, v any) Case { return Case{Send: true, Ch: ch, Val: v} }

func fact(n int) int {
	f := 1
	for i := 2; i <= n && f < 1<<20; i++ {
		f *= i
	}
	return f
}

// permutation number k (factorial number system) of 0..n-1; k=0 is the identity
func perm(n int, k int) []int {
	order := make([]int, n)
	for i := range order {
		order[i] = i
	}
	for i := 0; i < n-1 && k > 0; i++ {
		r := n - i
		j := k % r
		k /= r
		order[i], order[i+j] = order[i+j], order[i]
	}
	return order
}

// Select performs exactly one of the real channel operations, chosen under scheduler control.
func Select(site string, hasDefault bool, cases ...Case) *Sel {
	if !Active() {
		return nil
	}
	n := len(cases)
	rc := make([]reflect.SelectCase, n)
	valid := 0
	for i, c := range cases {
		cv := reflect.ValueOf(c.Ch)
		ok := cv.IsValid() && !cv.IsNil()
		if !ok {
			rc[i] = reflect.SelectCase{Dir: reflect.SelectRecv}
			continue
		}
		valid++
		if c.Send {
			et := cv.Type().Elem()
			var v reflect.Value
			if c.Val == nil {
				v = reflect.Zero(et)
			} else {
				v = reflect.ValueOf(c.Val)
				if v.Type() != et {
					v = v.Convert(et)
				}
			}
			rc[i] = reflect.SelectCase{Dir: reflect.SelectSend, Chan: cv, Send: v}
		} else {
			rc[i] = reflect.SelectCase{Dir: reflect.SelectRecv, Chan: cv}
		}
	}
	var order []int
	var e int64
	if valid > 1 {
		k, rot := entropyRot(site, fact(n))
		order = perm(n, k)
		if k == 0 && rot > 0 {
			r := rot % n
			order = append(order[r:], order[:r]...)
		}
		raceDisable()
		if s := cur.Load(); s != nil {
			e = s.epoch.Load()
		}
		raceEnable()
	} else {
		e = Pre(site)
		order = perm(n, 0)
	}
	for _, i := range order {
		if !rc[i].Chan.IsValid() {
			continue
		}
		chosen, v, ok := reflect.Select([]reflect.SelectCase{rc[i], {Dir: reflect.SelectDefault}})
		if chosen == 0 {
			return &Sel{idx: i, val: v, ok: ok}
		}
	}
	if hasDefault {
		return &Sel{idx: -1}
	}
	chosen, v, ok := reflect.Select(rc)
	Post(e, site)
	return &Sel{idx: chosen, val: v, ok: ok}
}

// SurR returns the surrogate for receive case i: the real channel outside a simulation, nil if the
// simulator performed another case, else a one-slot channel holding the received value (or closed).
func SurR[C any](s *Sel, i int, c C) C {
	if s == nil {
		return c
	}
	var zero C
	if s.idx != i {
		return zero
	}
	ct := reflect.TypeOf(c)
	bt := reflect.ChanOf(reflect.BothDir, ct.Elem())
	ch := reflect.MakeChan(bt, 1)
	if s.ok {
		ch.Send(s.val)
	} else {
		ch.Close()
	}
	return ch.Convert(ct).Interface().(C)
}

// SurS is the surrogate for send case i: an empty one-slot channel that swallows the re-sent value.
func SurS[C any](s *Sel, i int, c C) C {
	if s == nil {
		return c
	}
	var zero C
	if s.idx != i {
		return zero
	}
	ct := reflect.TypeOf(c)
	bt := reflect.ChanOf(reflect.BothDir, ct.Elem())
	ch := reflect.MakeChan(bt, 1)
	return ch.Convert(ct).Interface().(C)
}

// Keys returns the keys of m in a deterministic order (sorted by printed form). With perm set and
// a simulation running the sorted order is then permuted by the tape (a scheduling point).
func Keys[M ~map[K]V, K comparable, V any](site string, m M, permute bool) []K {
	keys := make([]K, 0, len(m))
	for k := range m {
		keys = append(keys, k)
	}
	if len(keys) < 2 {
		return keys
	}
	strs := make(map[K]string, len(keys))
	for _, k := range keys {
		strs[k] = fmt.Sprintf("%v", k)
	}
	sort.Slice(keys, func(i, j int) bool { return strs[keys[i]] < strs[keys[j]] })
	if permute && Active() {
		k := Entropy(site, fact(len(keys)))
		if k > 0 {
			o := perm(len(keys), k)
			out := make([]K, len(keys))
			for i, j := range o {
				out[i] = keys[j]
			}
			keys = out
		}
	}
	return keys
}
