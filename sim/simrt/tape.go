package simrt

// splitmix64
type Rng struct{ s uint64 }

func NewRng(seed uint64) *Rng { return &Rng{s: seed} }

func (r *Rng) Next() uint64 {
	r.s += 0x9e3779b97f4a7c15
	z := r.s
	z = (z ^ (z >> 30)) * 0xbf58476d1ce4e5b9
	z = (z ^ (z >> 27)) * 0x94d049bb133111eb
	return z ^ (z >> 31)
}

func (r *Rng) Intn(n int) int {
	if n <= 1 {
		return 0
	}
	return int(r.Next() % uint64(n))
}

// Mix derives a sub-seed.
func Mix(a uint64, b uint64) uint64 {
	r := Rng{s: a ^ (b * 0x9e3779b97f4a7c15)}
	r.Next()
	return r.Next()
}

// RecTape draws from a PRNG (or from a recorded prefix) and records every value it hands out.
// Replay semantics: values beyond the recorded prefix are 0 ("simplest choice") when Strict is
// set, otherwise they come from the PRNG.
type RecTape struct {
	Prefix []int
	pos    int
	Rec    []int
	rng    *Rng
	Strict bool
	// PSwitch1024 is the probability (in 1/1024) that a "sched" draw is a uniform choice rather
	// than 0 (keep running the current goroutine).
	PSwitch1024 int
	// PCT mode (probabilistic concurrency testing): every goroutine gets a random priority when it is
	// first seen, the runnable goroutine with the highest priority runs, and at random change points the
	// running goroutine drops to the lowest priority. This starves individual goroutines for long
	// stretches, which uniform switching practically never does.
	PCT      bool
	prio     map[int]uint64
	lowNext  uint64
	changeIn int
	// Lazy mode: a goroutine that becomes runnable for the first time is passed over for a random number of
	// decisions (as long as somebody else can run). Goroutines started one after the other then often begin
	// in another order than they were started in, and a starter regularly gets far ahead of what it started -
	// the uniform policy lets a new goroutine run almost at once, PCT fixes one order for the whole run.
	Lazy    bool
	lazyMax int
	hold    map[int]int
}

func NewRandomTape(seed uint64) *RecTape {
	r := NewRng(seed)
	ps := []int{20, 60, 150, 300, 600, 1024}
	t := &RecTape{rng: r, PSwitch1024: ps[r.Intn(len(ps))]}
	switch r.Intn(8) {
	case 0, 1, 2, 3:
		t.PCT = true
		t.prio = map[int]uint64{}
		t.lowNext = 1 << 20
		t.changeIn = 1 + r.Intn(200)
	case 4:
		t.Lazy = true
		t.hold = map[int]int{}
		t.lazyMax = []int{6, 20, 60, 200}[r.Intn(4)]
	}
	return t
}

func NewReplayTape(vals []int) *RecTape {
	return &RecTape{Prefix: vals, Strict: true}
}

func (t *RecTape) Choose(kind string, n int) int {
	v := 0
	if t.pos < len(t.Prefix) {
		v = t.Prefix[t.pos]
		t.pos++
		if n > 0 {
			v %= n
		}
		if v < 0 {
			v = 0
		}
	} else if !t.Strict && t.rng != nil {
		if kind == "sched" {
			if t.rng.Intn(1024) < t.PSwitch1024 {
				v = t.rng.Intn(n)
			}
		} else {
			v = t.rng.Intn(n)
		}
	}
	t.Rec = append(t.Rec, v)
	return v
}

// ChooseSched picks among the runnable goroutines ids (ids[0] is the goroutine that ran last if it
// is still runnable). Replay uses the recorded index; random mode uses the run's policy.
func (t *RecTape) ChooseSched(ids []int, lastRunnable bool) int {
	n := len(ids)
	if t.pos >= len(t.Prefix) && !t.Strict && t.rng != nil && t.Lazy {
		var eligible []int
		for i, id := range ids {
			h, seen := t.hold[id]
			if !seen {
				h = t.rng.Intn(t.lazyMax + 1)
			}
			if h > 0 {
				t.hold[id] = h - 1
			} else {
				t.hold[id] = 0
				eligible = append(eligible, i)
			}
		}
		best := 0
		switch {
		case len(eligible) == 0:
			best = 0
		case len(eligible) == 1:
			best = eligible[0]
		default:
			// among the eligible ones as in the biased policy: mostly the one that ran last, sometimes any
			best = eligible[0]
			if t.rng.Intn(1024) < t.PSwitch1024 {
				best = eligible[t.rng.Intn(len(eligible))]
			}
		}
		t.Rec = append(t.Rec, best)
		return best
	}
	if t.pos < len(t.Prefix) || t.Strict || t.rng == nil || !t.PCT {
		return t.Choose("sched", n)
	}
	for _, id := range ids {
		if _, ok := t.prio[id]; !ok {
			t.prio[id] = (1 << 21) + t.rng.Next()%(1<<40)
		}
	}
	t.changeIn--
	if t.changeIn <= 0 && lastRunnable {
		t.lowNext--
		t.prio[ids[0]] = t.lowNext
		t.changeIn = 1 + t.rng.Intn(400)
	}
	best := 0
	for i, id := range ids {
		if t.prio[id] > t.prio[ids[best]] {
			best = i
		}
	}
	t.Rec = append(t.Rec, best)
	return best
}
