//go:build race

package simrt

import (
	"runtime"
	"unsafe"
)

// RaceEnabled reports whether the binary was built with -race.
const RaceEnabled = true

func raceDisable() { runtime.RaceDisable() }
func raceEnable()  { runtime.RaceEnable() }

// RaceDisable/RaceEnable bracket code whose synchronisation must stay invisible to the detector.
func RaceDisable() { runtime.RaceDisable() }
func RaceEnable()  { runtime.RaceEnable() }

func RaceAcquire(p unsafe.Pointer)      { runtime.RaceAcquire(p) }
func RaceRelease(p unsafe.Pointer)      { runtime.RaceRelease(p) }
func RaceReleaseMerge(p unsafe.Pointer) { runtime.RaceReleaseMerge(p) }
func RaceRead(p unsafe.Pointer)         { runtime.RaceRead(p) }
func RaceWrite(p unsafe.Pointer)        { runtime.RaceWrite(p) }

// RaceErrors is the number of races reported so far in this process.
func RaceErrors() int { return runtime.RaceErrors() }
