#!/bin/bash
# sensitivity.sh [budget_s] [id...] : for every kept seeded change, apply it to a scratch worktree of /repo's HEAD
# (never to /repo itself) and run the check of the property it breaks. Prints one line per change.
# Development tooling, not part of the manifest.
HERE=$(cd "$(dirname "$0")/.." && pwd)
B=${1:-40}; shift
IDS=${@:-$(ls "$HERE/seeded")}
OUT=$(mktemp -d /tmp/verif-sens-XXXXXX)
missed=0
for id in $IDS; do
  prop=$(python3 -c "import json;print(json.load(open('$HERE/seeded/$id/meta.json'))['breaks_property'])")
  W=$OUT/wt-$id
  git -C /repo worktree add --detach "$W" HEAD >/dev/null 2>&1 || { echo "$id: cannot create worktree"; continue; }
  if ! git -C "$W" apply "$HERE/seeded/$id/patch.diff" 2>/dev/null; then echo "$id ($prop): PATCH DOES NOT APPLY"; git -C /repo worktree remove --force "$W"; continue; fi
  VERIF_REPO=$W VERIF_EVIDENCE_DIR=$OUT/ev VERIF_REPLAY_DIR=$OUT/rp "$HERE/check" $prop --budget $B > $OUT/$id.log 2>&1
  rc=$?
  n=$(grep -c '^VIOLATION' $OUT/$id.log)
  cl=$(grep '^  clause=' $OUT/$id.log | head -2 | sed 's/^  clause=\([^ ]*\).*/\1/' | tr '\n' ' ')
  if [ $rc -eq 1 ] && [ $n -gt 0 ]; then echo "$id ($prop): caught  $cl"; else echo "$id ($prop): MISSED (exit $rc)"; missed=$((missed+1)); fi
  git -C /repo worktree remove --force "$W" >/dev/null 2>&1
done
rm -rf "$OUT"
echo "missed: $missed"
