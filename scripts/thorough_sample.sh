#!/bin/bash
# thorough_sample.sh <budget_s> <prop>... : the thorough tier (four base seeds) with a reduced budget, for `vp run`.
B=$1; shift
cd "$(dirname "$0")/.."
for p in "$@"; do
  VERIF_BUDGET_S=$B ./check $p --tier thorough > /tmp/thor-$p.log 2>&1
  echo "$p exit=$? $(grep -E '^VIOLATION|^  clause' /tmp/thor-$p.log | head -3 | cut -c1-260 | tr '\n' ' ') $(tail -1 /tmp/thor-$p.log | cut -c1-120)"
done
