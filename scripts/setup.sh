#!/bin/bash
# setup_cmd: build the instrumenter and warm the go1.26.8 build cache (plain and race) from files on disk only.
set -u
HERE=$(cd "$(dirname "$0")/.." && pwd)
. "$HERE/scripts/env.sh"
mkdir -p "$HERE/bin" "$HERE/evidence" "$HERE/replays"
(cd "$HERE/cmd/instr" && go build -o "$HERE/bin/instr" .) || exit 1
S=$(mktemp -d "${TMPDIR:-/tmp}/verif-setup-XXXXXX")
trap 'rm -rf "$S"' EXIT
"$HERE/scripts/build.sh" "$S/plain" "$S/w.test" || exit 1
"$HERE/scripts/build.sh" "$S/race" "$S/wr.test" race || exit 1
echo "setup ok"
