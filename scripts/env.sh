# sourced by every script: sealed-sandbox Go environment with the newer toolchain
export PATH=/opt/veriftools/go1.26.8/bin:$PATH
export GOTOOLCHAIN=local GOWORK=off GOFLAGS=-mod=mod GOPROXY=off GOSUMDB=off
export GOCACHE=${GOCACHE:-/root/.cache/go-build}
