#!/bin/bash
# trymut.sh <patch.diff> <budget_s> <prop>... : apply a seeded change to a scratch worktree of /repo's HEAD (never to
# /repo itself), run the named checks against it, remove the worktree.
P=$(readlink -f "$1"); B=$2; shift 2
HERE=$(cd "$(dirname "$0")/.." && pwd)
OUT=$(mktemp -d /tmp/verif-mut-XXXXXX)
W=$OUT/wt
git -C /repo worktree add --detach "$W" HEAD >/dev/null 2>&1 || { echo "cannot create worktree"; exit 2; }
trap 'git -C /repo worktree remove --force "$W" >/dev/null 2>&1; rm -rf "$OUT"' EXIT
git -C "$W" apply "$P" || { echo "patch does not apply"; exit 2; }
cd "$HERE"
for p in "$@"; do
  VERIF_REPO=$W VERIF_EVIDENCE_DIR=$OUT/ev VERIF_REPLAY_DIR=/tmp/mut-replays ./check $p --budget $B > /tmp/trymut.$p.log 2>&1
  echo "== $p exit=$? $(grep -c '^VIOLATION' /tmp/trymut.$p.log) violation line(s): $(grep '^VIOLATION' /tmp/trymut.$p.log | head -2 | tr '\n' ' ')"
  grep "^  clause" /tmp/trymut.$p.log | head -2 | cut -c1-400
done
