#!/bin/bash
# trymut.sh <patch.diff> <budget_s> <prop>... : apply a seeded change to /repo, run the named checks, undo.
P=$1; B=$2; shift 2
cd /repo || exit 2
git diff --quiet || { echo "/repo has uncommitted changes"; exit 2; }
git apply "$P" || { echo "patch does not apply"; exit 2; }
trap 'git -C /repo checkout -- . ; git -C /repo clean -fdq' EXIT
cd /verif
for p in "$@"; do
  ./check $p --budget $B > /tmp/trymut.$p.log 2>&1
  echo "== $p exit=$? $(grep -c '^VIOLATION' /tmp/trymut.$p.log) violation line(s): $(grep '^VIOLATION' /tmp/trymut.$p.log | head -2 | tr '\n' ' ')"
  grep "^  clause" /tmp/trymut.$p.log | head -2 | cut -c1-400
done
