#!/bin/bash
# trymut.sh <patch.diff> <budget_s> <prop>... : apply a change to a scratch worktree of /repo's HEAD (never to
# /repo itself), run the named checks against it ("all" = every property), remove the worktree.
# Logs: /tmp/trymut-logs/<patch dir name>/<prop>.log (several invocations may run side by side).
P=$(readlink -f "$1"); B=$2; shift 2
HERE=$(cd "$(dirname "$0")/.." && pwd)
OUT=$(mktemp -d /tmp/verif-mut-XXXXXX)
W=$OUT/wt
NAME=$(basename "$(dirname "$P")")
[ "$NAME" = out ] && NAME=$(basename "$(dirname "$(dirname "$P")")")
LOGS=/tmp/trymut-logs/$NAME
mkdir -p "$LOGS"
git -C /repo worktree add --detach "$W" HEAD >/dev/null 2>&1 || { echo "cannot create worktree"; exit 2; }
trap 'git -C /repo worktree remove --force "$W" >/dev/null 2>&1; rm -rf "$OUT"' EXIT
git -C "$W" apply "$P" || { echo "patch does not apply"; exit 2; }
cd "$HERE"
PROPS="$*"
[ "$PROPS" = all ] && PROPS="C01 C02 C03 C04 C05 C06 C07 C08 C09 C10 C11 C12 C13 C14 C15 C16 C17 C18 C19 C20"
for p in $PROPS; do
  VERIF_REPO=$W VERIF_EVIDENCE_DIR=$OUT/ev VERIF_REPLAY_DIR=/tmp/mut-replays/$NAME ./check $p --budget $B > $LOGS/$p.log 2>&1
  echo "== $NAME $p exit=$? $(grep -c '^VIOLATION' $LOGS/$p.log) violation line(s): $(grep '^VIOLATION' $LOGS/$p.log | head -2 | tr '\n' ' ')"
  grep "^  clause" $LOGS/$p.log | head -2 | cut -c1-400
done
