#!/bin/bash
# sweep.sh <budget_s> <seed>... : every property's check with the given seeds (other than the registered seed 1);
# prints one line per check. Meant for `vp run` (evidence lands in the snapshot, not in /verif).
B=$1; shift
cd "$(dirname "$0")/.."
for s in "$@"; do
  for p in C01 C02 C03 C04 C05 C06 C07 C08 C09 C10 C11 C12 C13 C14 C15 C16 C17 C18 C19 C20; do
    ./check $p --seed $s --budget $B > /tmp/sweep-$p-$s.log 2>&1
    rc=$?
    echo "seed=$s $p exit=$rc $(grep -E '^VIOLATION|^  clause' /tmp/sweep-$p-$s.log | head -4 | cut -c1-260 | tr '\n' ' ')"
  done
done
