#!/usr/bin/env python3
"""Regenerates /verif/MANIFEST.json from scripts/propcfg.py (one source of truth)."""
import json, os, sys
HERE = os.path.dirname(os.path.dirname(os.path.abspath(__file__)))
sys.path.insert(0, os.path.join(HERE, "scripts"))
import propcfg

NA = [
]
ALL = ["C%02d" % i for i in range(1, 21)]
checks = []
for pid in sorted(propcfg.PROPS):
    c = propcfg.PROPS[pid]
    checks.append({
        "property_id": pid,
        "quick_cmd": "./check %s --tier quick" % pid,
        "thorough_cmd": "./check %s --tier thorough" % pid,
        "evidence_file": "evidence/%s.json" % pid,
        "replay_cmd_template": "./check replay {path}",
        "engine": "simrt",
        "level_claimed": {
            "category": c.get("level", "exploration"),
            "text": c.get("level_text", "seeded search over generated scenarios, fault plans and goroutine schedules of the real engine under a deterministic simulator; oracle: " + c.get("oracle", "reference model over the recorded history")),
            "design_ref": "DESIGN.md section 5, " + pid,
        },
        "level_note": c.get("level_note", "sampling, not proof; schema.Parse trusted; each call into an un-instrumented dependency is one atomic step; simsync equivalent to sync"),
        "technique": c.get("technique", "deterministic simulation with fault injection: seeded schedule/fault search over the instrumented real engine, reference-model oracle, minimised replay files"),
    })
claimed = set(propcfg.PROPS)
na = list(NA)
for pid in ALL:
    if pid not in claimed and pid not in [x["property_id"] for x in na]:
        na.append({"property_id": pid, "reason": "check not built yet in this round (planned: DESIGN.md section 5)"})
man = {
    "version": 1,
    "setup_cmd": "./scripts/setup.sh",
    "hooks": {
        "guard": "verifsim",
        "enable": "no hook lives in /repo: every check copies /repo's current working tree to a scratch directory and instruments the copy (cmd/instr, go/ast) at check time; /repo is never modified by a check",
        "baseline_off_cmd": "cd /repo && GOPROXY=off GOSUMDB=off GOTOOLCHAIN=local go test -count=1 ./... && cd schema && GOPROXY=off GOSUMDB=off GOTOOLCHAIN=local go test -count=1 ./...",
        "source_commits": [],
        "add_only": True,
    },
    "engines": [{"name": "simrt", "path": "sim/", "serves_properties": sorted(claimed),
                 "kind_free_text": "deterministic simulator: testing/synctest bubble + tape-driven scheduler over AST-instrumented real code, seeded fault injection, tape minimisation, replay files"}],
    "checks": checks,
    "not_applicable": na,
    "notes": "fix: commits in /repo and open known findings are listed in known_findings.json; seeded breaking changes used to test the checks are under seeded/",
}
json.dump(man, open(os.path.join(HERE, "MANIFEST.json"), "w"), indent=1)
print("checks:", [c["property_id"] for c in checks], "n/a:", [x["property_id"] for x in na])
