#!/bin/bash
# build.sh <scratch-dir> <out-binary> [race]
# Copies /repo's current working tree into <scratch-dir>, adds the harness, instruments everything and
# builds the worker test binary. Exit 2 on any build trouble (never a VIOLATION).
set -u
HERE=$(cd "$(dirname "$0")/.." && pwd)
. "$HERE/scripts/env.sh"
S=$1; OUT=$2; RACE=${3:-}
REPO=${VERIF_REPO:-/repo}
mkdir -p "$S" || exit 2
rsync -a --delete --exclude .git --exclude 'go.work*' --exclude examples "$REPO"/ "$S"/ || exit 2
# the bundled example diagrams (C15 round-trips every bundled .bpmn file); the example programs themselves are not built
rsync -a --delete --include '*/' --include '*.bpmn' --exclude '*' "$REPO"/examples/ "$S"/zz_examples/ 2>/dev/null
cd "$S" || exit 2
sed -i 's/^go 1\.[0-9.]*$/go 1.26/' go.mod || exit 2
sed -i 's/^go 1\.[0-9.]*$/go 1.26/' schema/go.mod 2>/dev/null
cat >> go.mod <<EOM

require verif/sim v0.0.0
replace verif/sim => $HERE/sim
EOM
mkdir -p zzverif && cp "$HERE"/harness/*.go zzverif/ || exit 2
mkdir -p zzsimaux && cp "$HERE"/sim/aux/*.go zzsimaux/ || exit 2
if [ -d "$HERE/harness/inject" ]; then cp "$HERE"/harness/inject/*.go . ; fi
if [ ! -x "$HERE/bin/instr" ]; then (cd "$HERE/cmd/instr" && go build -o "$HERE/bin/instr" .) || exit 2; fi
"$HERE/bin/instr" "$S" . ./pkg/... ./model/... ./zzverif/... ./zzsimaux/... > "$S/instr.log" 2>&1 || { cat "$S/instr.log" >&2; echo "build.sh: instrumentation failed" >&2; exit 2; }
if [ -n "$RACE" ]; then
  go test -race -c -o "$OUT" ./zzverif > "$S/build.log" 2>&1 || { cat "$S/build.log" >&2; echo "build.sh: race build failed" >&2; exit 2; }
else
  go test -c -o "$OUT" ./zzverif > "$S/build.log" 2>&1 || { cat "$S/build.log" >&2; echo "build.sh: build failed" >&2; exit 2; }
fi
cat "$S/instr.log"
