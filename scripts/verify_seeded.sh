#!/bin/bash
# verify_seeded.sh <src-dir with patch.diff + demo_test.go> : confirm in a scratch worktree of /repo HEAD that
# the change compiles, the existing suite passes with it, the demo passes without and fails with it.
D=$1
export GOPROXY=off GOSUMDB=off GOTOOLCHAIN=local
W=$(mktemp -d /tmp/vseed-XXXXXX)
git -C /repo worktree add --detach "$W" HEAD >/dev/null 2>&1 || exit 2
trap 'git -C /repo worktree remove --force "$W" >/dev/null 2>&1; rm -rf "$W" "$W.clean.log" "$W.mut.log"' EXIT
cd "$W"
DEMO=$(ls "$D"/*_test.go | head -1)
DEST=$(grep -m1 -oE '(Place|place|Copy|copy)[^\n]*' "$DEMO" | head -1)
PKGDIR=${2:-.}
cp "$DEMO" "$PKGDIR/zz_seeded_demo_test.go"
NAME=$(grep -oE '^func (Test[A-Za-z0-9_]+)' "$DEMO" | awk '{print $2}' | paste -sd'|')
echo "demo tests: $NAME in $PKGDIR"
go test -count=1 -timeout 300s -run "^($NAME)\$" ./$PKGDIR > $W.clean.log 2>&1; echo "clean demo exit=$?"
git apply "$D/patch.diff" || { echo "patch does not apply to HEAD"; exit 2; }
go build ./... || { echo "does not compile"; exit 2; }
go test -count=1 -timeout 300s -run "^($NAME)\$" ./$PKGDIR > $W.mut.log 2>&1; echo "mutated demo exit=$?"
rm "$PKGDIR/zz_seeded_demo_test.go"
for i in 1 2; do go test -count=1 -timeout 120s ./... 2>&1 | grep -E "^(--- FAIL|FAIL|panic: test timed)" | tr '\n' ' '; echo "suite run $i done"; done
(cd schema && go test -count=1 ./... | tail -1)
