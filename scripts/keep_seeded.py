#!/usr/bin/env python3
"""keep_seeded.py <name> <src-dir> <property> <needs> <caught-by> : copy a confirmed seeded change into /verif/seeded/<name>/"""
import json, os, shutil, sys, subprocess
name, src, prop, needs, caught = sys.argv[1:6]
dst = os.path.join('/verif/seeded', name)
os.makedirs(dst, exist_ok=True)
for f in os.listdir(src):
    if f.endswith('.diff') or f.endswith('_test.go') or f == 'NOTES.md' or f.endswith('.go'):
        shutil.copy(os.path.join(src, f), os.path.join(dst, f if not f.endswith('_test.go') else f + '.txt'))
head = subprocess.check_output(['git', '-C', '/repo', 'rev-parse', '--short', 'HEAD'], text=True).strip()
meta = {
    "breaks_property": prop,
    "needs_to_manifest": needs,
    "confirmed": {
        "how": "scripts/verify_seeded.sh in a scratch worktree of /repo at " + head + ": patch applies and compiles, existing suite passes with it (modulo the suite's own known flakes), demo passes without the patch and fails with it",
        "checks_run": "scripts/trymut.sh <patch> 25 <props> (apply to /repo, ./check <prop> --budget 25, git checkout)",
    },
    "caught_by": caught.split(',') if caught else [],
    "demo_note": "demo file stored with a .txt suffix so that it is never compiled as part of /verif",
}
json.dump(meta, open(os.path.join(dst, 'meta.json'), 'w'), indent=1)
print('kept', dst)
