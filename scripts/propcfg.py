"""Per-property configuration of ./check (budgets, evidence text)."""

COMPONENTS = {
    "real": [
        "github.com/olive-io/bpmn/v2 root package, pkg/*, model (instrumented copy of /repo's working tree)",
        "github.com/olive-io/bpmn/schema (XML parser and generated model)",
        "expr-lang/expr, xsel XPath, sonic/gjson, muyo/sno (where used)",
        "Go channels, context, select (the runtime's own implementation)",
    ],
    "replaced": [
        "Go scheduler -> verif/sim/simrt (tape-driven, one goroutine at a time)",
        "sync.Mutex/RWMutex/WaitGroup/Once -> verif/sim/simsync (channel based, same happens-before annotations)",
        "wall clock and timers -> testing/synctest fake clock (discrete-event time)",
        "id generator -> counter behind the repository's IGenerator seam (except C20)",
        "embedding application -> driver actors in /verif/harness",
    ],
}

ASSUMPTIONS = [
    "sampling, not proof: a clean batch is evidence only",
    "each call into an un-instrumented dependency is one atomic step",
    "schema.Parse is trusted to deliver the generated diagram to the engine",
    "simsync is semantically equivalent to sync (writer preference kept, no starvation mode)",
    "liveness means: reached before terminal quiescence (no runnable goroutine, no pending timer within 100 simulated seconds) and within the step cap",
]

PROPS = {
    "C01": {
        "level": "exploration",
        "quick_s": 40, "thorough_s": 900, "thorough_seeds": 4,
        "rule": "block-structured programs (seq/xor/and/or/loop/conditional-task/sub, swarm subset per run, <=12 tasks, depth<=3) x truth assignment x answer plan (hold-until-quiescent / pick order) x subscriber buffer 0..16 x tape-driven goroutine schedule; distinct = distinct hash of the (goroutine id, site) schedule sequence; non-trivial = at least one context switch and >= 2 task requests Further: default flows on activities, sub-processes inside loops, parallel and inclusive branches without any activity, loops left over a condition (continued by default), a join followed by a fork of the same kind drawn as one gateway.",
    },
    "C03": {
        "level": "exploration", "quick_s": 30, "thorough_s": 600, "thorough_seeds": 4,
        "rule": "fork -> N tasks -> parallel gateway N x M -> M tasks -> join, N,M in 1..4, 1..3 activations through a loop; the answer plan holds requests until the engine is quiescent and then picks any pending one, so every finish order of the upstream tasks is reachable; tape-driven goroutine schedule; distinct = distinct schedule hash, non-trivial = N>1 or M>1 and at least one context switch Further: flows without activity into and out of the gateway (tokens that arrive the moment the fork fires).",
    },
    "C04": {
        "level": "exploration", "quick_s": 30, "thorough_s": 600, "thorough_seeds": 4,
        "rule": "exclusive gateway with 1..4 conditional flows, default absent or at any list position, truth assignment drawn per condition, expr / XPath / data-object conditions, 1..3 tokens arriving concurrently through a parallel fork; distinct = schedule hash; non-trivial = at least one context switch Further strata: several tokens reaching the gateway over one incoming flow (behind a merge); informal condition expressions; a token that passes two gateways with a task that stores nothing in between while a sibling task changes the variable the second gateway reads. Further stratum: one token passes the same gateway several times through a loop, taking the default first and a condition later or the other way round.",
    },
    "C05": {
        "level": "exploration", "quick_s": 30, "thorough_s": 600, "thorough_seeds": 4,
        "rule": "inclusive fork with 1..4 conditional branches + optional default, branches of one or two tasks, some ending in their own end event, joined by an inclusive join; truth assignments drawn; answer plan reaches all finish orders; distinct = schedule hash; non-trivial = >= 2 branch tasks requested and a context switch Further strata: sequence flows straight from the fork to the join; an inclusive gateway that joins and forks at once between the fork and the join.",
    },
    "C12": {
        "level": "exploration", "quick_s": 40, "thorough_s": 900, "thorough_seeds": 4,
        "rule": "C01 programs in which blocks are wrapped in 1..3 levels of embedded sub-process (also inside parallel and inclusive branches and inside loops); each run executes the wrapped program and its inlined twin generated from the same draws, under the same answer plan; oracle = token game on the wrapped run (sub-process boundaries transparent) + differential comparison with the twin; distinct = schedule hash; non-trivial = at least one wrapper and a context switch",
    },
    "C02": {
        "level": "exploration", "quick_s": 35, "thorough_s": 900, "thorough_seeds": 4,
        "rule": "processes with 1..3 start events (separate ends / exclusive merge / parallel join of the start branches), started by StartAll, by sequential StartWith or by concurrent StartWith goroutines, sometimes only a subset; 1..3 WaitUntilComplete clients, each optionally delayed, with a deadline that expires (then waiting again) and with repeated calls; answers optionally delayed in simulated time so that deadlines expire mid-flight; oracle: token game + per-call return/outcome stamps + position of CeaseFlowTrace; distinct = schedule hash; non-trivial = >1 start event or >1 waiter and a context switch Further stratum: every start branch forks (parallel gateway, no join) into branches that end at an end event or silently at a node without outgoing flow, optionally with a subscriber that pauses on every trace.",
    },
    "C07": {
        "level": "exploration", "quick_s": 40, "thorough_s": 900, "thorough_seeds": 4,
        "rule": "C01-style programs (all gateway kinds, loops, sub-processes, conditional tasks) with some tasks never answered; fault = context cancellation when the k-th trace has been observed (k drawn in 1..90, or only after the instance came to rest); after the cancel the simulator runs to quiescence and the exact live-goroutine table, Tracer().Done(), subscriber channel closure, waiter returns and late TaskTraces are checked; distinct = schedule hash; non-trivial = cancel fired and a context switch Further families: catch events, event-based gateways and boundary events with events in flight (C11/C06/C10 generators); 1..2 timer catch events on a mock clock that is jumped 0..3 times; process sets (C18 generator) cancelled at trace k; start events with a second outgoing flow.",
        "oracle": "exact live-goroutine table of the simulator + tracer/subscriber/waiter shutdown observations",
    },
    "C09": {
        "level": "exploration", "quick_s": 35, "thorough_s": 900, "thorough_seeds": 4,
        "rule": "(a) pkg/tracing alone: 1..8 sender goroutines x 1..6 traces each, 1..4 subscribers with buffer 0..4 that subscribe late, consume lazily and unsubscribe after k traces or stay until termination, optional relay; (b) engine runs of C01-style programs with 2..3 subscribers of the process tracer: causality grammar (flows announced before they appear, visit before leave, nothing after termination) and identical sequences; distinct = schedule hash; non-trivial = >1 subscriber (a) or a forking run (b), with a context switch Further strata: a subscriber that leaves and joins again with the same channel object; start events (of the process and of sub-processes) with a second outgoing flow.",
        "oracle": "history checks over stamped Send/Subscribe/Unsubscribe/receive events; causality grammar over the engine's trace stream",
    },
    "C08": {
        "level": "exploration", "quick_s": 35, "thorough_s": 900, "thorough_seeds": 4,
        "rule": "T1 -> exclusive gateway reading T1's declared result (variable or data object) -> T2|T3 whose properties reference T1's results; answer history of T1: 1..3 Do calls sequential or from concurrent goroutines, declared + undeclared result fields and data outputs, error without handler / skip / exit / retry(n in 0..3) with success on attempt j or never, handler decision optionally late, never answered + task time-out, optional definition-level retries attribute; oracle: token game with error modes + call/return stamps of every Do + first-answer linearisation + visibility to the next task; distinct = schedule hash; non-trivial = a context switch Further strata: a task without any result declaration (or with a task definition only) in front, answered with results like the others. Further stratum: the Do calls answering one request are of different kinds (results / error without handler); which kind took effect is read off the trace stream and nothing of the other kind may show.",
    },
    "C11": {
        "level": "exploration", "quick_s": 35, "thorough_s": 900, "thorough_seeds": 4,
        "rule": "1..3 intermediate catch events (signal / message) in sequence, in parallel, or behind a task, optionally with a catch + throw event on a branch that is never taken; event histories of 0..8 events (matching, non-matching, repeated) + the awaited ones, delivered one at a time at quiescent moments interleaved with task answers (exact listener model) or from their own goroutines at arbitrary trace counts (safety bounds only); every ConsumeEvent call is stamped; distinct = schedule hash; non-trivial = at least one event delivered and a context switch Further strata: racing deliveries that land the moment their trigger trace is observed (in the middle of engine activity) instead of at the next moment of rest; message events and definitions with operation references. Further: start events that carry an event definition of their own (never delivered) in front of the catch events.",
    },
    "C14": {
        "level": "exploration", "quick_s": 45, "thorough_s": 600, "thorough_seeds": 4,
        "rule": "a process with one multiple / parallel-multiple intermediate catch event over 1..4 signal/message definitions inside a loop (re-armed up to 3 times); event histories of 0..9 events including non-matching ones, delivered at quiescent moments interleaved with task answers; oracle: listener counting model in the token game + bounds computed from the engine's own EventObservedTrace/LeaveTrace + sequential cross-check of logic.CatchEventSatisfier over the same history; distinct = schedule hash; non-trivial = an event delivered and a context switch Further strata: events from separate goroutines (each definition once); bursts of 2..24 events handed over back to back behind a subscriber that pauses per trace; the pinned pattern partial set / filler / second partial set / completing event, then the completing event alone once the token is back (exact counting). Sequential part per invocation: every history of length 9 over 1..3 (thorough: 4) definitions for both satisfiers.",
    },
    "C06": {
        "level": "exploration", "quick_s": 30, "thorough_s": 600, "thorough_seeds": 4,
        "rule": "event-based gateway with 2..3 alternatives (signal / message catch events, each followed by its own task and end event), optionally behind a task; event plans: non-empty sequences (length 1..4) over the competing events plus a stranger, delivered one at a time at quiescent moments (exact model) or from separate goroutines at the same moment once all alternatives are armed; later deliveries of losing events included; oracle: exactly one branch task, only for a delivered event, one determination, completion, every ConsumeEvent returns; distinct = schedule hash; non-trivial = a context switch Further stratum: events delivered the moment a drawn number of alternatives has reported that it listens (racing with the arming of the gateway), the first competitor delivered once more at rest. Further stratum: two tokens behind the same gateway at the same time (parallel fork in front of it, one branch optionally through a task).",
    },
    "C10": {
        "level": "exploration", "quick_s": 30, "thorough_s": 600, "thorough_seeds": 4,
        "rule": "host task with 1..2 boundary events (interrupting / non-interrupting), separate tasks and end events on the normal and on each exception path, optionally a task before the host (events before activation) or two tokens inside the host; plans: 0..4 events (matching, non-matching, repeated) interleaved with the host's answer at quiescent moments, or the answer issued immediately after an event; oracle: token game with boundary semantics; several clauses are open known findings (see known_findings.json); distinct = schedule hash; non-trivial = an event delivered and a context switch Further strata: the host re-entered through a loop (event in the first or second activation); the whole event plan handed over back to back, sequentially or from separate goroutines; sub-process hosts.",
    },
    "C13": {
        "level": "exploration", "quick_s": 30, "thorough_s": 600, "thorough_seeds": 4,
        "rule": "timer definitions (date, duration, cycle Rn|R / start|now / interval / optional end, n in 0..3) on clock.Mock, on the real clock.Host code under the simulator's fake time, and inside a process with a timer catch event (optionally behind a task); clock histories of 1..6 non-decreasing values drawn from the grid {500ms before, 1ns before, exactly at, 1ns after, far beyond, unchanged} around every due instant and the end bound; cancellation before a drawn step; the run is brought to quiescence after every step; oracle: independent arithmetic over the history (never early, exact count, spacing by construction of the reference, end bound, silent after cancel, channel closed); distinct = schedule hash; non-trivial = more than one clock step Further stratum: the mock clock is also set back (timer alone).",
        "oracle": "reference arithmetic over the clock history",
    },
    "C18": {
        "level": "exploration", "quick_s": 30, "thorough_s": 600, "thorough_seeds": 4,
        "rule": "definitions with 1..3 executable processes (0..2 tasks each, so some finish at once) or one executable process that throws to a waiting process (instantiated at its start event) and optionally to a listening catch event of a second executable process; 1..3 ProcessSet.WaitUntilComplete calls, sequential or concurrent; oracle: one token game per process instance (instances created per throw), completion iff all instances done, exactly one CeaseProcessSetTrace, wake count of the catch event; distinct = schedule hash; non-trivial = >1 process or >1 wait and a context switch Further strata: block-structured process bodies; bursts of 2..7 throws; two throw events aimed at one catch event that two tokens reach behind tasks of their own.",
    },
    "C20": {
        "level": "exploration", "quick_s": 40, "thorough_s": 900, "thorough_seeds": 4, "race": True, "race_clause": "C20/data-race",
        "rule": "(b) 1..8 generators alive at once (real muyo/sno generators through id.GetSno(), and fallback generators created at the same instant of the frozen simulated clock), 1..16 goroutines drawing 1..60 ids each from every generator under tape-driven interleaving, snapshot after a drawn number of draws followed by RestoreIdGenerator and further draws (crash/restart with durable state), occasionally 70000 draws inside one frozen time unit (sequence overflow); (a) engine runs of forking programs with the engine's real default generator, collecting FlowId/InstanceId from the traces; race build: the Go race detector sees the draws with the scheduler hand-off hidden; oracle: one set, any repeat is a violation; distinct = schedule hash; non-trivial = >1 drawing goroutine or generator (c) 2..5 instances following each other in one engine, each with a context of its own that is cancelled before the next is created, in the same instant or 1..6 simulated ms later, ids collected from Process.Id and NewFlowTrace. Further stratum: several generators created one after the other, one of them drawing thousands of ids inside one time unit.",
        "oracle": "pairwise distinctness over the whole run + race detector",
    },
    "C15": {
        "level_text": 'the behaviour clause (engine identical on original and re-parsed model) is decided by seeded simulation: the real engine runs on the re-parsed model under generated fault plans and goroutine schedules and is judged by a reference model derived from the original diagram; the structural clauses (equivalent model, serialising alters nothing, ids retrievable) are deterministic comparisons on the same generated documents and on every bundled file (DESIGN.md section 6)',
        "level_note": 'sampling, not proof; the structural comparison ignores whitespace-only text and treats absent and empty payloads alike; scenario families with open findings (C10, C12 loops) are not used as carriers',
        "level": "exploration", "quick_s": 35, "thorough_s": 900, "thorough_seeds": 4,
        "rule": "generated definitions of the C01 (all gateway kinds, defaults, expr and XPath conditions, data-dependent conditions, sub-processes), C03, C04 (data objects), C05, C06, C08 (olive properties/results/data outputs, task definitions), C11, C13 (timer definitions), C14 (multiple event definitions) and C18 (collaborations, message flows, several processes) families are parsed, serialised with encoding/xml and parsed again; the engine then runs on the RE-PARSED model under the family's fault plan and a tape-driven goroutine schedule and the recorded history is checked by the family's oracle, which is derived from the ORIGINAL graph (behaviour clause); before each run the same document is compared structurally (original vs re-parsed, serialised model vs an untouched twin, every id retrievable); once per invocation every bundled .bpmn file goes through the structural comparison; distinct = schedule hash; non-trivial = as in the family Further stratum: the parsed model is edited in memory before it is serialised (free-text fields of the zoo process get values a parser would never produce: leading and trailing blanks, tabs, entities), and attribute strings are compared exactly.",
        "oracle": "reference model of the original diagram over the history of the re-parsed one + field-by-field model comparison",
    },
    "C19": {
        "race": True, "race_clause": "C19/data-race",
        "level_text": "uniqueness of builder ids under the simulator's clock (the builders seed their id source from the clock) and executability of the builder output (each activity requested once, in insertion order, completion) are decided by seeded simulation; referential integrity, layout geometry and round-trip survival are deterministic checks on the same builder outputs (DESIGN.md section 6)",
        "level_note": "sampling, not proof; math/rand's global source is re-seeded per run for replayability; a sub-process added without content is a known finding",
        "level": "exploration", "quick_s": 30, "thorough_s": 600, "thorough_seeds": 4,
        "rule": "1..3 processes per definitions, each built by 0..12 AddActivity calls over all ten activity types with and without preset ids, AutoLayout with the documented defaults or a configuration from the grid origins {0, 96, -50, 1e6} x gaps {0, 50, 100, 120, 180, 300}; the builders read the simulator's clock (ids are drawn from a generator seeded with time.Now() at every call: the clock stands still or advances 1..3 simulated ms between calls); the builder output or its re-parsed serialisation then runs in the engine under a tape-driven goroutine schedule and answer plan and the history is checked against the token game of the chain that was asked for (each activity requested once, in insertion order, completion); before the run the output is checked for unique ids, referential integrity of every sequence flow, start/end degree, one shape per node and one edge per flow with finite coordinates, edges on their shapes, no overlap when the gaps are at least the node sizes, and survival of the XML round trip; distinct = schedule hash; non-trivial = at least one activity and a context switch",
        "oracle": "token game of the requested chain over the recorded history + structural and geometric checks of the builder output",
    },
    "C16": {
        "race": True, "race_clause": "C16/data-race",
        "level_text": 'isolation between concurrently running instances and absence of panics in engine goroutines are decided by seeded simulation of 1..3 instances with generated values under tape-driven interleavings; the canonical-form reference the read-back values are compared with is sequential code (DESIGN.md section 6)',
        "level_note": 'sampling, not proof; values outside the statement (unsigned > MaxInt64, NaN/Inf, []byte) are not generated; for nil and for declared types that do not match the supplied value only the absence of a panic is required',
        "level": "exploration", "quick_s": 30, "thorough_s": 600, "thorough_seeds": 4,
        "rule": "1..3 instances of one process (service task writing results and data outputs -> service task reading them through typed properties, headers with $references and data inputs) run at the same time in one simulation, each driven by its own client goroutine; instance variables, task results and data outputs are drawn from 24 kinds of Go values (every integer width signed and unsigned with boundary values, float32/64, unicode / empty / quoted strings, booleans, slices, arrays, nested maps, structs, pointers, nil, typed nil pointers, deep nesting), the same kinds but different contents per instance; properties are declared with matching and with non-matching item types, by name and by references to present and absent paths; tape-driven interleaving of all instances' goroutines; oracle: what instance i reads (Locator().CloneVariables() after start and at the end, TaskTrace.GetProperties/GetDataObjects/GetHeaders of the next task) is the canonical form of what instance i wrote, never another instance's value, and no simulated goroutine panics; distinct = schedule hash; non-trivial = a context switch Further strata: a name that already holds a value is written again with a value of another kind (through the locator, by the same task, by a later task); an exclusive gateway behind the reading task routes every instance by a data object that instance stored; the client changes every value it has read in place.",
        "oracle": "canonical-form reference per instance + panic capture in every simulated goroutine",
    },
    "C17": {
        "level": "exploration", "quick_s": 60, "thorough_s": 1200, "thorough_seeds": 4, "race": True, "race_clause": "C17/data-race",
        "rule": "scenarios of the C01, C03, C04, C06, C08, C10 and C11 families in the race build, with additional client goroutines: subscribers that join, read a few traces and leave again and again, readers of Locator().CloneVariables/CloneItems/GetVariable woken on every trace, every Do call from its own goroutine, extra WaitUntilComplete callers; the race detector runs inside the simulation with the scheduler hand-off hidden (RaceDisable brackets), reports count if the innermost frame of one access lies in a non-test file of the module; panics in any simulated goroutine are captured; the family's own oracle must still accept the outcome; distinct = schedule hash; non-trivial = a context switch Further families: C04, C05, C14, timer catch events on a jumped mock clock, process sets; stress subscribers of odd index keep one channel and join with it again and again.",
        "oracle": "Go race detector inside the simulation + panic capture + the family's sequential-semantics oracle",
    },
}

# strata added in the fourth session (DESIGN.md 5.2), appended to the rule texts
_DOC = "document variations for every generated process: sequenceFlow elements reversed / shuffled / in front of the nodes, flow nodes in reverse document order, optional attributes spelled out with their default values"
_ADD = {
    "C01": "intermediate throw events as ordinary nodes (also in loops and sub-processes); " + _DOC,
    "C02": "a token that comes into being at a non-interrupting boundary event while the host waits, tasks on both paths; " + _DOC,
    "C03": "a parallel join fed by the 2..3 start events of a sub-process that a loop enters 1..3 times; " + _DOC,
    "C04": "the first of two gateways reads the variables while a sibling's answer is stored (activities answered at the same moment); " + _DOC,
    "C05": "the variable an inclusive fork's condition reads is written by a parallel branch while the token forks (either value accepted; never both flows, never none without an error trace); " + _DOC,
    "C06": "the body nested in 1..2 sub-process levels; a timer among the alternatives (mock clock advanced by the event plan); a later catch event on the winning branch that listens for a losing alternative's event; " + _DOC,
    "C07": "event and timer families with bodies nested in sub-processes; throw events; instances set going through ThrowAll; instances that are never started",
    "C08": "a task requested again (loop) after the variable its property reads has changed, by a task in front of it or by its own previous answer; " + _DOC,
    "C09": "the tracer's context cancelled while the senders are still at work (not through a relay); throw events in the engine programs",
    "C10": "boundary events of kind message / escalation / error; bodies nested in sub-processes; the host answered with an error (no handler, skip, exit, retry then success); the matching event right after the host has completed (the moment the next request is seen, or a few ms after the answer while a burst of strangers keeps the tracer stuck behind a slow subscriber); " + _DOC,
    "C11": "bodies nested in 1..2 sub-process levels; escalation and error definitions; 2..3 tokens waiting at one catch event that they reached over the same sequence flow; " + _DOC,
    "C12": "sub-process content whose branches end each in its own way (end event, node without outgoing flow, exit decision, retries that run out), 1..2 levels, in a parallel branch or a loop (token game only); throw events in the wrapped programs",
    "C13": "the timer catch event inside 1..2 sub-process levels; a reader that is away from the timer's channel until after the cancellation; a second timer due far in the future (year 9999 / 2300 / 2100) on the same clock",
    "C14": "the body nested in sub-processes; escalation and error definitions; references that share what follows a colon; " + _DOC,
    "C15": "throw events in the programs; riding along: seven small documents, each a plain process plus one lonely feature (a data object's body, properties / headers on the process element, a diagram, one formal condition, root elements)",
    "C16": "initial variables from two WithVariables options, the first a map of defaults shared by all instances; reference paths that lead nowhere in less ordinary ways (negative, huge, non-numeric indexes, empty segments, path-language characters)",
    "C17": "stress readers use every reading call of the locator (ApplyTo, the item-aware locators); throw events; nested event families",
    "C18": "process bodies (throw events, catch events that message flows aim at) nested in sub-processes; a throw racing the catch event's first listening (both tasks answered at the same moment, throw events without message flow skew the two chains)",
    "C19": "riding along: processes of other shapes (forks that join or not, sub-processes, several end events, throw events) handed to DefinitionBuilder.AddProcess and laid out",
    "C20": "a snapshot taken at rest after snapshot calls that raced the draws; riding along: two million fallback generators in one program (four in the thorough tier)",
}
for _k, _v in _ADD.items():
    PROPS[_k]["rule"] = PROPS[_k]["rule"] + " Further strata (fourth session): " + _v + "."
