"""Per-property configuration of ./check (budgets, evidence text)."""

COMPONENTS = {
    "real": [
        "github.com/olive-io/bpmn/v2 root package, pkg/*, model (instrumented copy of /repo's working tree)",
        "github.com/olive-io/bpmn/schema (XML parser and generated model)",
        "expr-lang/expr, xsel XPath, sonic/gjson, muyo/sno (where used)",
        "Go channels, context, select (the runtime's own implementation)",
    ],
    "replaced": [
        "Go scheduler -> verif/sim/simrt (tape-driven, one goroutine at a time)",
        "sync.Mutex/RWMutex/WaitGroup/Once -> verif/sim/simsync (channel based, same happens-before annotations)",
        "wall clock and timers -> testing/synctest fake clock (discrete-event time)",
        "id generator -> counter behind the repository's IGenerator seam (except C20)",
        "embedding application -> driver actors in /verif/harness",
    ],
}

ASSUMPTIONS = [
    "sampling, not proof: a clean batch is evidence only",
    "each call into an un-instrumented dependency is one atomic step",
    "schema.Parse is trusted to deliver the generated diagram to the engine",
    "simsync is semantically equivalent to sync (writer preference kept, no starvation mode)",
    "liveness means: reached before terminal quiescence (no runnable goroutine, no pending timer within 100 simulated seconds) and within the step cap",
]

PROPS = {
    "C01": {
        "level": "exploration",
        "quick_s": 40, "thorough_s": 900, "thorough_seeds": 4,
        "rule": "block-structured programs (seq/xor/and/or/loop/conditional-task/sub, swarm subset per run, <=12 tasks, depth<=3) x truth assignment x answer plan (hold-until-quiescent / pick order) x subscriber buffer 0..16 x tape-driven goroutine schedule; distinct = distinct hash of the (goroutine id, site) schedule sequence; non-trivial = at least one context switch and >= 2 task requests",
    },
}
