// instr rewrites a scratch copy of the module under test (and of the driver packages copied into it)
// so that every synchronisation point yields to the simulator in verif/sim/simrt.
//
// Usage: instr <dir-of-scratch-copy> <pkg patterns...>
//
// Rules (all semantics-preserving when no simulation is running):
//
//	go F(a...)            operands evaluated in the parent, simrt.Spawn before, GoStart/GoExit in the child
//	ch <- v               { e := simrt.Pre(site); ch <- v; simrt.Post(e, site) }
//	<-ch, v, ok := <-ch   simrt.Recv / simrt.Recv2
//	for v := range ch     for { v, ok := simrt.Recv2(ch); if !ok { break }; ... }
//	select                operands hoisted, simrt.Select performs exactly one real operation, the original
//	                      statement is kept on surrogate channels
//	close(ch)             simrt.Yield before
//	import "sync"         verif/sim/simsync
//	sync/atomic ops       simrt.Yield before the enclosing statement
//	range over a map      iteration over simrt.Keys (sorted; permuted by the tape if the body communicates)
package main

import (
	"bytes"
	"fmt"
	"go/ast"
	"go/format"
	"go/token"
	"go/types"
	"os"
	"path/filepath"
	"strconv"
	"strings"

	"golang.org/x/tools/go/ast/astutil"
	"golang.org/x/tools/go/packages"
)

const rtPath = "verif/sim/simrt"
const syncPath = "verif/sim/simsync"

// auxPath is the package (copied into the module under test by build.sh) that replaces the standard-library calls
// which start goroutines of their own
var auxPath = ""

var counter int
var stats = map[string]int{}

func main() {
	dir := os.Args[1]
	cfg := &packages.Config{
		Mode: packages.NeedName | packages.NeedFiles | packages.NeedSyntax | packages.NeedTypes | packages.NeedTypesInfo | packages.NeedCompiledGoFiles | packages.NeedImports | packages.NeedDeps | packages.NeedModule,
		Dir:  dir,
		Env:  append(os.Environ(), "GOWORK=off"),
	}
	pkgs, err := packages.Load(cfg, os.Args[2:]...)
	if err != nil {
		fmt.Fprintln(os.Stderr, "instr: load:", err)
		os.Exit(2)
	}
	for _, p := range pkgs {
		if p.Module != nil && p.Module.Main {
			auxPath = p.Module.Path + "/zzsimaux"
		}
	}
	nfiles := 0
	bad := false
	for _, p := range pkgs {
		for _, e := range p.Errors {
			fmt.Fprintln(os.Stderr, "instr: load error:", e)
			bad = true
		}
	}
	if bad {
		os.Exit(2)
	}
	for _, p := range pkgs {
		for i, f := range p.Syntax {
			name := p.CompiledGoFiles[i]
			if strings.HasSuffix(name, "_test.go") || strings.Contains(name, "schema_generated") || strings.Contains(name, "schema_di_generated") {
				continue
			}
			if !strings.HasPrefix(name, dir) {
				continue
			}
			if instrumentFile(p, f, name) {
				var buf bytes.Buffer
				if err := format.Node(&buf, p.Fset, f); err != nil {
					fmt.Fprintf(os.Stderr, "instr: %s: %v\n", name, err)
					os.Exit(2)
				}
				if err := os.WriteFile(name, buf.Bytes(), 0644); err != nil {
					fmt.Fprintln(os.Stderr, "instr:", err)
					os.Exit(2)
				}
				nfiles++
			}
		}
	}
	fmt.Printf("instrumented files=%d sites=%d", nfiles, counter)
	for _, k := range []string{"go", "send", "recv", "rangechan", "select", "close", "atomic", "maprange", "sync", "stdgo"} {
		fmt.Printf(" %s=%d", k, stats[k])
	}
	fmt.Println()
}

// funcAt maps a position to the name of the enclosing top-level function (filled per file).
var funcRanges []struct {
	from, to token.Pos
	name     string
}

func funcAt(pos token.Pos) string {
	for _, r := range funcRanges {
		if pos >= r.from && pos <= r.to {
			return r.name
		}
	}
	return "?"
}

// site renders "file.go:line@Func": the function name gives signatures that survive line shifts.
func site(p *packages.Package, pos token.Pos) ast.Expr {
	ps := p.Fset.Position(pos)
	return &ast.BasicLit{Kind: token.STRING, Value: strconv.Quote(fmt.Sprintf("%s:%d@%s", filepath.Base(ps.Filename), ps.Line, funcAt(pos)))}
}

func rt(name string) ast.Expr {
	return &ast.SelectorExpr{X: ast.NewIdent("simrt"), Sel: ast.NewIdent(name)}
}

func call(fn ast.Expr, args ...ast.Expr) *ast.CallExpr {
	return &ast.CallExpr{Fun: fn, Args: args}
}

func isLiteralish(e ast.Expr) bool {
	switch v := e.(type) {
	case *ast.BasicLit:
		return true
	case *ast.Ident:
		return v.Name == "nil" || v.Name == "true" || v.Name == "false"
	}
	return false
}

func isAtomicCall(p *packages.Package, ce *ast.CallExpr) bool {
	sel, ok := ce.Fun.(*ast.SelectorExpr)
	if !ok {
		return false
	}
	// package-level function of sync/atomic
	if id, ok := sel.X.(*ast.Ident); ok {
		if pn, ok := p.TypesInfo.Uses[id].(*types.PkgName); ok {
			return pn.Imported().Path() == "sync/atomic"
		}
	}
	// method on a sync/atomic type
	if s, ok := p.TypesInfo.Selections[sel]; ok {
		if fn, ok := s.Obj().(*types.Func); ok && fn.Pkg() != nil && fn.Pkg().Path() == "sync/atomic" {
			return true
		}
	}
	return false
}

func isMap(p *packages.Package, e ast.Expr) bool {
	t := p.TypesInfo.TypeOf(e)
	if t == nil {
		return false
	}
	_, ok := t.Underlying().(*types.Map)
	return ok
}

func isChan(p *packages.Package, e ast.Expr) bool {
	t := p.TypesInfo.TypeOf(e)
	if t == nil {
		return false
	}
	_, ok := t.Underlying().(*types.Chan)
	return ok
}

// bodyKind: 0 = pure (no call, no communication), 1 = has calls, 2 = communicates syntactically
func bodyKind(b *ast.BlockStmt) int {
	k := 0
	ast.Inspect(b, func(n ast.Node) bool {
		switch x := n.(type) {
		case *ast.SendStmt, *ast.SelectStmt, *ast.GoStmt:
			k = 2
		case *ast.UnaryExpr:
			if x.Op == token.ARROW {
				k = 2
			}
		case *ast.CallExpr:
			if id, ok := x.Fun.(*ast.Ident); ok && id.Name == "close" {
				k = 2
			}
			if k < 1 {
				k = 1
			}
		}
		return true
	})
	return k
}

func instrumentFile(p *packages.Package, f *ast.File, name string) bool {
	funcRanges = funcRanges[:0]
	for _, d := range f.Decls {
		if fd, ok := d.(*ast.FuncDecl); ok {
			n := fd.Name.Name
			if fd.Recv != nil && len(fd.Recv.List) > 0 {
				t := fd.Recv.List[0].Type
				if st, ok := t.(*ast.StarExpr); ok {
					t = st.X
				}
				if id, ok := t.(*ast.Ident); ok {
					n = id.Name + "." + n
				}
			}
			funcRanges = append(funcRanges, struct {
				from, to token.Pos
				name     string
			}{fd.Pos(), fd.End(), n})
		}
	}
	changed := false
	usesRt := false
	for _, imp := range f.Imports {
		if imp.Path.Value == `"sync"` {
			imp.Path.Value = strconv.Quote(syncPath)
			imp.Name = ast.NewIdent("sync")
			changed = true
			stats["sync"]++
		}
	}
	// calls that start goroutines inside the standard library: redirect them to goroutines the simulator sees
	usesAux := false
	if auxPath != "" && p.PkgPath != auxPath {
		isPkgFn := func(ce *ast.CallExpr, pkg, fn string) bool {
			se, ok := ce.Fun.(*ast.SelectorExpr)
			if !ok || se.Sel.Name != fn {
				return false
			}
			id, ok := se.X.(*ast.Ident)
			if !ok {
				return false
			}
			pn, ok := p.TypesInfo.Uses[id].(*types.PkgName)
			return ok && pn.Imported().Path() == pkg
		}
		redirect := func(ce *ast.CallExpr, fn string) {
			ce.Fun = &ast.SelectorExpr{X: ast.NewIdent("zzsimaux"), Sel: ast.NewIdent(fn)}
			usesAux = true
			stats["stdgo"]++
		}
		ast.Inspect(f, func(n ast.Node) bool {
			switch s := n.(type) {
			case *ast.CallExpr:
				if isPkgFn(s, "context", "AfterFunc") {
					redirect(s, "CtxAfterFunc")
				}
			case *ast.ExprStmt:
				if ce, ok := s.X.(*ast.CallExpr); ok && isPkgFn(ce, "time", "AfterFunc") {
					redirect(ce, "TimeAfterFunc")
				}
			case *ast.AssignStmt:
				// (only where the timer's type is inferred: a variable declared as *time.Timer would not fit)
				if s.Tok == token.DEFINE && len(s.Rhs) == 1 {
					if ce, ok := s.Rhs[0].(*ast.CallExpr); ok && isPkgFn(ce, "time", "AfterFunc") {
						redirect(ce, "TimeAfterFunc")
					}
				}
			}
			return true
		})
	}
	inComm := map[ast.Node]bool{}
	ast.Inspect(f, func(n ast.Node) bool {
		if cc, ok := n.(*ast.CommClause); ok && cc.Comm != nil {
			inComm[cc.Comm] = true
			switch c := cc.Comm.(type) {
			case *ast.ExprStmt:
				inComm[c.X] = true
			case *ast.AssignStmt:
				inComm[c.Rhs[0]] = true
			}
		}
		return true
	})

	// atomic operations: mark the enclosing statement that sits in a statement list
	yieldBefore := map[ast.Stmt]token.Pos{}
	var stack []ast.Node
	ast.Inspect(f, func(n ast.Node) bool {
		if n == nil {
			stack = stack[:len(stack)-1]
			return true
		}
		stack = append(stack, n)
		ce, ok := n.(*ast.CallExpr)
		if !ok || !isAtomicCall(p, ce) {
			return true
		}
		for i := len(stack) - 2; i >= 1; i-- {
			st, isStmt := stack[i].(ast.Stmt)
			if !isStmt {
				continue
			}
			switch st.(type) {
			case *ast.CommClause, *ast.CaseClause:
				continue
			}
			ok := false
			switch stack[i-1].(type) {
			case *ast.BlockStmt, *ast.CaseClause:
				ok = true
			case *ast.CommClause:
				ok = !inComm[st]
			}
			if ok {
				if _, dup := yieldBefore[st]; !dup {
					yieldBefore[st] = ce.Pos()
				}
				break
			}
		}
		return true
	})

	inList := func(c *astutil.Cursor) bool { return c.Index() >= 0 }

	post := func(c *astutil.Cursor) bool {
		n := c.Node()
		if st, ok := n.(ast.Stmt); ok {
			if pos, ok := yieldBefore[st]; ok && inList(c) {
				delete(yieldBefore, st)
				counter++
				stats["atomic"]++
				c.InsertBefore(&ast.ExprStmt{X: call(rt("Yield"), site(p, pos))})
				usesRt = true
			}
		}
		switch s := n.(type) {
		case *ast.GoStmt:
			counter++
			stats["go"]++
			id := counter
			var stmts []ast.Stmt
			fn := ast.NewIdent(fmt.Sprintf("_gf%d", id))
			stmts = append(stmts, &ast.AssignStmt{Lhs: []ast.Expr{fn}, Tok: token.DEFINE, Rhs: []ast.Expr{s.Call.Fun}})
			var args []ast.Expr
			for i, a := range s.Call.Args {
				if isLiteralish(a) {
					args = append(args, a)
					continue
				}
				an := ast.NewIdent(fmt.Sprintf("_ga%d_%d", id, i))
				stmts = append(stmts, &ast.AssignStmt{Lhs: []ast.Expr{an}, Tok: token.DEFINE, Rhs: []ast.Expr{a}})
				args = append(args, an)
			}
			gs := ast.NewIdent(fmt.Sprintf("_gs%d", id))
			stmts = append(stmts, &ast.AssignStmt{Lhs: []ast.Expr{gs}, Tok: token.DEFINE, Rhs: []ast.Expr{call(rt("Spawn"), site(p, s.Pos()))}})
			inner := &ast.CallExpr{Fun: fn, Args: args, Ellipsis: s.Call.Ellipsis}
			body := &ast.BlockStmt{List: []ast.Stmt{
				&ast.ExprStmt{X: call(rt("GoStart"), gs)},
				&ast.DeferStmt{Call: call(rt("GoExit"), gs)},
				&ast.ExprStmt{X: inner},
			}}
			stmts = append(stmts, &ast.GoStmt{Call: &ast.CallExpr{Fun: &ast.FuncLit{Type: &ast.FuncType{Params: &ast.FieldList{}}, Body: body}}})
			c.Replace(&ast.BlockStmt{List: stmts})
			usesRt = true
		case *ast.SendStmt:
			if inComm[s] {
				return true
			}
			counter++
			stats["send"]++
			st := site(p, s.Pos())
			ev := ast.NewIdent(fmt.Sprintf("_se%d", counter))
			c.Replace(&ast.BlockStmt{List: []ast.Stmt{
				&ast.AssignStmt{Lhs: []ast.Expr{ev}, Tok: token.DEFINE, Rhs: []ast.Expr{call(rt("Pre"), st)}},
				s,
				&ast.ExprStmt{X: call(rt("Post"), ev, st)},
			}})
			usesRt = true
		case *ast.UnaryExpr:
			if s.Op != token.ARROW || inComm[s] {
				return true
			}
			counter++
			stats["recv"]++
			if as, ok := c.Parent().(*ast.AssignStmt); ok && len(as.Lhs) == 2 && len(as.Rhs) == 1 {
				c.Replace(call(rt("Recv2"), site(p, s.Pos()), s.X))
			} else if vs, ok := c.Parent().(*ast.ValueSpec); ok && len(vs.Names) == 2 && len(vs.Values) == 1 {
				c.Replace(call(rt("Recv2"), site(p, s.Pos()), s.X))
			} else {
				c.Replace(call(rt("Recv"), site(p, s.Pos()), s.X))
			}
			usesRt = true
		case *ast.RangeStmt:
			if isChan(p, s.X) {
				counter++
				stats["rangechan"]++
				id := counter
				okn := ast.NewIdent(fmt.Sprintf("_rok%d", id))
				var lhs ast.Expr = ast.NewIdent("_")
				tok := token.DEFINE
				if s.Key != nil {
					lhs = s.Key
					if s.Tok == token.ASSIGN {
						// v = range ch: keep assignment to the outer variable, define ok separately
						tok = token.ASSIGN
					}
				}
				var pre []ast.Stmt
				if tok == token.ASSIGN {
					pre = append(pre, &ast.DeclStmt{Decl: &ast.GenDecl{Tok: token.VAR, Specs: []ast.Spec{&ast.ValueSpec{Names: []*ast.Ident{okn}, Type: ast.NewIdent("bool")}}}})
				}
				recv := &ast.AssignStmt{Lhs: []ast.Expr{lhs, okn}, Tok: tok, Rhs: []ast.Expr{call(rt("Recv2"), site(p, s.Pos()), s.X)}}
				brk := &ast.IfStmt{Cond: &ast.UnaryExpr{Op: token.NOT, X: okn}, Body: &ast.BlockStmt{List: []ast.Stmt{&ast.BranchStmt{Tok: token.BREAK}}}}
				body := append(append(pre, recv, brk), s.Body.List...)
				c.Replace(&ast.ForStmt{Body: &ast.BlockStmt{List: body}})
				usesRt = true
				return true
			}
			if !isMap(p, s.X) {
				return true
			}
			kind := bodyKind(s.Body)
			if kind == 0 {
				return true
			}
			counter++
			stats["maprange"]++
			id := counter
			mn := ast.NewIdent(fmt.Sprintf("_rm%d", id))
			kn := ast.NewIdent(fmt.Sprintf("_rk%d", id))
			okn := ast.NewIdent(fmt.Sprintf("_rok%d", id))
			permute := "false"
			if kind == 2 {
				permute = "true"
			}
			var pre []ast.Stmt
			// key
			if s.Key != nil {
				if id2, isId := s.Key.(*ast.Ident); !isId || id2.Name != "_" {
					pre = append(pre, &ast.AssignStmt{Lhs: []ast.Expr{s.Key}, Tok: s.Tok, Rhs: []ast.Expr{kn}})
				}
			}
			// value (skip entries deleted during the iteration, as the language does)
			var vlhs ast.Expr = ast.NewIdent("_")
			vtok := token.DEFINE
			if s.Value != nil {
				if id2, isId := s.Value.(*ast.Ident); !isId || id2.Name != "_" {
					vlhs = s.Value
					vtok = s.Tok
				}
			}
			if vtok == token.ASSIGN {
				pre = append(pre, &ast.DeclStmt{Decl: &ast.GenDecl{Tok: token.VAR, Specs: []ast.Spec{&ast.ValueSpec{Names: []*ast.Ident{okn}, Type: ast.NewIdent("bool")}}}})
			}
			pre = append(pre,
				&ast.AssignStmt{Lhs: []ast.Expr{vlhs, okn}, Tok: vtok, Rhs: []ast.Expr{&ast.IndexExpr{X: mn, Index: kn}}},
				&ast.IfStmt{Cond: &ast.UnaryExpr{Op: token.NOT, X: okn}, Body: &ast.BlockStmt{List: []ast.Stmt{&ast.BranchStmt{Tok: token.CONTINUE}}}},
			)
			loop := &ast.RangeStmt{
				Key: ast.NewIdent("_"), Value: kn, Tok: token.DEFINE,
				X:    call(rt("Keys"), site(p, s.Pos()), mn, ast.NewIdent(permute)),
				Body: &ast.BlockStmt{List: append(pre, s.Body.List...)},
			}
			blk := &ast.BlockStmt{List: []ast.Stmt{
				&ast.AssignStmt{Lhs: []ast.Expr{mn}, Tok: token.DEFINE, Rhs: []ast.Expr{s.X}},
				loop,
			}}
			if _, labeled := c.Parent().(*ast.LabeledStmt); labeled {
				// keep the label on the loop itself: hoist is not possible, evaluate the map inline
				loop.X = call(rt("Keys"), site(p, s.Pos()), s.X, ast.NewIdent(permute))
				pre[len(pre)-2].(*ast.AssignStmt).Rhs[0].(*ast.IndexExpr).X = s.X
				c.Replace(loop)
			} else {
				c.Replace(blk)
			}
			usesRt = true
		case *ast.SelectStmt:
			if len(s.Body.List) == 0 {
				return true
			}
			counter++
			stats["select"]++
			id := counter
			var hoist []ast.Stmt
			var cases []ast.Expr
			hasDefault := false
			idx := 0
			ssn := fmt.Sprintf("_ss%d", id)
			for _, cl := range s.Body.List {
				cc := cl.(*ast.CommClause)
				if cc.Comm == nil {
					hasDefault = true
					continue
				}
				chn := ast.NewIdent(fmt.Sprintf("_sc%d_%d", id, idx))
				lit := &ast.BasicLit{Kind: token.INT, Value: strconv.Itoa(idx)}
				switch cm := cc.Comm.(type) {
				case *ast.SendStmt:
					vn := ast.NewIdent(fmt.Sprintf("_sv%d_%d", id, idx))
					hoist = append(hoist, &ast.AssignStmt{Lhs: []ast.Expr{chn}, Tok: token.DEFINE, Rhs: []ast.Expr{cm.Chan}})
					if isLiteralish(cm.Value) {
						cases = append(cases, call(rt("S"), chn, cm.Value))
					} else {
						hoist = append(hoist, &ast.AssignStmt{Lhs: []ast.Expr{vn}, Tok: token.DEFINE, Rhs: []ast.Expr{cm.Value}})
						cases = append(cases, call(rt("S"), chn, vn))
						cm.Value = vn
					}
					cm.Chan = call(rt("SurS"), ast.NewIdent(ssn), lit, chn)
				case *ast.ExprStmt:
					u := cm.X.(*ast.UnaryExpr)
					hoist = append(hoist, &ast.AssignStmt{Lhs: []ast.Expr{chn}, Tok: token.DEFINE, Rhs: []ast.Expr{u.X}})
					cases = append(cases, call(rt("R"), chn))
					u.X = call(rt("SurR"), ast.NewIdent(ssn), lit, chn)
				case *ast.AssignStmt:
					u := cm.Rhs[0].(*ast.UnaryExpr)
					hoist = append(hoist, &ast.AssignStmt{Lhs: []ast.Expr{chn}, Tok: token.DEFINE, Rhs: []ast.Expr{u.X}})
					cases = append(cases, call(rt("R"), chn))
					u.X = call(rt("SurR"), ast.NewIdent(ssn), lit, chn)
				}
				idx++
			}
			hd := "false"
			if hasDefault {
				hd = "true"
			}
			args := append([]ast.Expr{site(p, s.Pos()), ast.NewIdent(hd)}, cases...)
			hoist = append(hoist, &ast.AssignStmt{Lhs: []ast.Expr{ast.NewIdent(ssn)}, Tok: token.DEFINE, Rhs: []ast.Expr{call(rt("Select"), args...)}})
			if _, labeled := c.Parent().(*ast.LabeledStmt); labeled {
				// `L: select {...}` with `break L` inside: keep the label on the select, hoist before the label
				// is not expressible through the cursor; wrap instead: L: { hoist; select }. `break L` on a
				// labeled block is legal Go.
				hoist = append(hoist, s)
				c.Replace(&ast.BlockStmt{List: hoist})
			} else {
				hoist = append(hoist, s)
				c.Replace(&ast.BlockStmt{List: hoist})
			}
			usesRt = true
		case *ast.ExprStmt:
			if ce, ok := s.X.(*ast.CallExpr); ok {
				if id, ok := ce.Fun.(*ast.Ident); ok && id.Name == "close" {
					if _, isB := p.TypesInfo.Uses[id].(*types.Builtin); isB && inList(c) {
						counter++
						stats["close"]++
						c.InsertBefore(&ast.ExprStmt{X: call(rt("Yield"), site(p, s.Pos()))})
						usesRt = true
					}
				}
			}
		}
		return true
	}
	astutil.Apply(f, nil, post)
	if usesAux {
		astutil.AddNamedImport(p.Fset, f, "zzsimaux", auxPath)
		for _, std := range []string{"context", "time"} {
			if !astutil.UsesImport(f, std) {
				astutil.DeleteImport(p.Fset, f, std)
			}
		}
		changed = true
	}
	if usesRt {
		have := false
		for _, imp := range f.Imports {
			if imp.Path.Value == strconv.Quote(rtPath) && (imp.Name == nil || imp.Name.Name == "simrt") {
				have = true
			}
		}
		if !have {
			astutil.AddNamedImport(p.Fset, f, "simrt", rtPath)
		}
		changed = true
	}
	return changed
}
